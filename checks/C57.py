"""C57 — expiring cache and one-shot primitives fire exactly once (specs OneShot / OneShotTrace)."""
import re

from vcheck import parse_tla_state
import _syncprims as sp

META = {
    "engine": "OneShot",
    "level": "model_checking",
    "text": "OneShot.tla models every atomic step of cache.TimeoutCache (Add / Remove / Clear critical sections, the runtime "
            "firing an entry's timer, the timer callback goroutine: lock + deleted test + delete, then the callback), of "
            "grpcsync.Event.Fire (CAS, close) and of grpcsync.RefCounted (TryIncrement load / CAS loop, Decrement + onZero); "
            "TLC checks callback-at-most-once / removed-never-called-back / one-taker / exactly-one-at-quiescence / one-Fire / "
            "cleanup-once / no-resurrection exhaustively with three negative controls; every transition of four bounded "
            "scopes is forced onto real goroutines (the real timer callback goroutine is started by firing the entry's real "
            "timer and gated at its first hook, so 'fired but not yet locked' is a scheduled state) with the private state "
            "compared after each step, and all recorded traces (gated and free-running stress with real short timers) are "
            "validated by TLC against the Level-A monitor OneShotTrace.tla.",
    "note": "Trusts that the hook points mark the atomic steps, the Go memory model for sync/atomic and sync.Mutex, the "
            "documented contract of time.Timer.Stop/Reset for AfterFunc timers, and TLC. Gated scopes: one key with <= 2 "
            "entry generations, 2 removers, 1 adder, 1 clearer; 3 firers; owner + 3 users. sync.OnceFunc users are standard "
            "library and not modelled. Stress is probabilistic.",
    "technique": "TLA+ spec + TLC exhaustive check; TLC state-graph edge cover replayed on real goroutines (gate scheduler); TLC trace validation",
}

POINT = {"expire": "expire", "ttimer": "tcache.timer", "tcb": "tcache.cb", "remove": "tcache.remove", "add": "tcache.add",
         "clear": "tcache.clear", "fcas": "event.cas", "fclose": "event.close", "rload": "refc.load", "rcas": "refc.cas",
         "rdec": "refc.dec"}


def step_of_cache(state_text, label):
    m = re.match(r'(\w+)\((?:"(\w+)"|(\d+))\)', label)
    name, arg, gen = m.group(1), m.group(2), m.group(3)
    st = parse_tla_state(state_text, only={"cur", "deleted"})
    return {"t": arg or "t" + gen, "p": POINT[name], "exp": {"cur": st["cur"], "deleted": st["deleted"]}}


def step_of_sync(state_text, label):
    m = re.match(r'(\w+)\("(\w+)"\)', label)
    st = parse_tla_state(state_text, only={"fired", "rc"})
    return {"t": m.group(2), "p": POINT[m.group(1)], "exp": {"fired": st["fired"], "rc": st["rc"]}}


def run(ctx):
    only = r"zz_verif_c57_"
    ctx.overlay(only)
    cache1 = dict(maxgen=2, removers=["r1", "r2"], adders=["a1"], clearers=["x1"], clear_run=True)
    cache2 = dict(maxgen=2, removers=["r1"], adders=["a1"], clearers=["x1"], clear_run=False)
    event = dict(firers=["f1", "f2", "f3"], owners=[], users=[])
    ref = dict(firers=[], owners=["o1"], users=["u1", "u2", "u3"])
    # (a) design level: exhaustive model checks (bigger scopes than the replayed ones), negative controls;
    # state graphs of the replay scopes (also checked against every invariant); driver builds
    res = sp.parallel([
        lambda: ctx.mc("OneShot", "OneShotMC.cfg", workers=2),
        lambda: ctx.mc("OneShot", "OneShotMCRef.cfg", workers=4),
        lambda: ctx.neg("OneShot", "OneShotNeg1.cfg", expect="I_RemovedNoCb", workers=1),
        lambda: ctx.neg("OneShot", "OneShotNeg2.cfg", expect="I_NoResurrect", workers=1),
        lambda: ctx.neg("OneShot", "OneShotNeg3.cfg", expect="I_OneFire", workers=1),
        lambda: ctx.dump_graph("OneShot", "OneShotGenCache.cfg"),
        lambda: ctx.dump_graph("OneShot", "OneShotGenCache2.cfg"),
        lambda: ctx.dump_graph("OneShot", "OneShotGenEvent.cfg"),
        lambda: ctx.dump_graph("OneShot", "OneShotGenRef.cfg"),
        lambda: ctx.go_build("internal/cache", name="c57cache", only=only),
        lambda: ctx.go_build("internal/grpcsync", name="c57sync", only=only),
    ])
    g1, g2, g3, g4, bcache, bsync = res[5:]
    g1 = sp.behaviours(ctx, g1, step_of_cache, cache1, "cache")
    g2 = sp.behaviours(ctx, g2, step_of_cache, cache2, "cache-silent")
    g3 = sp.behaviours(ctx, g3, step_of_sync, event, "event")
    g4 = sp.behaviours(ctx, g4, step_of_sync, ref, "refcounted", limit=ctx.pick(900, None))

    # (b)+(c) every transition of the bounded scopes forced onto real goroutines; (d) stress
    rounds = ctx.pick(200, 5000)
    parts = sp.parallel([
        lambda: sp.replay(ctx, bcache, "TestVerifC57CacheReplay", g1),
        lambda: sp.replay(ctx, bcache, "TestVerifC57CacheReplay", g2),
        lambda: sp.replay(ctx, bsync, "TestVerifC57SyncReplay", g3),
        lambda: sp.replay(ctx, bsync, "TestVerifC57SyncReplay", g4),
        lambda: sp.stress(ctx, bcache, "TestVerifC57CacheStress", rounds, "stress-cache"),
        lambda: sp.stress(ctx, bsync, "TestVerifC57SyncStress", rounds, "stress-sync"),
        # rounds aimed at the Load / increment window of TryIncrement around the last Decrement
        lambda: sp.stress(ctx, bsync, "TestVerifC57RefHunt", ctx.pick(1500, 20000), "stress-refhunt"),
    ], workers=2)
    # (e) all traces judged by the TLC monitor
    sp.validate(ctx, "OneShotTrace", parts)
    ctx.cov["rule"] = ("behaviours = edge cover of the TLC state graphs of OneShot.tla in four scopes (TimeoutCache with "
                       "Clear(true) / Clear(false), Event, RefCounted; one schedule per transition, BFS prefix), replayed on "
                       "real goroutines gated at verifhook points, private state compared after every step; non-trivial = "
                       "schedule of >= 3 steps, distinct by step sequence; plus seeded free-running stress rounds")
    ctx.assumptions += ["atomic steps of TimeoutCache / Event / RefCounted are the ones marked by verifhook points and "
                        "the driver's gates before each public call",
                        "time.Timer.Reset(0) on the entry's own AfterFunc timer is the runtime firing that timer",
                        "Level-A events are logged conservatively (*_call before, *_ret after, cb / on_zero inside the callback)"]
