"""C04 — inbound flow-control accounting is exact and never wedges a stream (spec InFlow)."""
import json
import os
import re

from vcheck import Inconclusive, write_ndjson, read_ndjson

META = {
    "engine": "InFlow",
    "level": "model_checking",
    "text": "InFlow.tla transcribes inFlow (onData / onRead / maybeAdjust / newLimit, with handleData's immediate consumption of "
            "padding) and trInFlow (onData / reset / newLimit) and keeps, as ghosts, the peer's view of the stream and connection "
            "windows (everything advertised minus everything sent). TLC checks for all bounded histories of well-behaved and "
            "excessive peers, Stream.read-disciplined applications (messages below and above the window, reads of any size), "
            "padded frames and limit raises: a peer inside its view is never rejected, data beyond it is always rejected, the view "
            "never exceeds the cap (a scaled MaxWin), the exact ledger limit+delta-pendingData-pendingUpdate = view, and no wedge "
            "(view >= limit - limit/4 > 0 whenever everything delivered was consumed); negative control: updates held back until "
            "a whole window is pending. Every transition of the bounded state graphs, seeded random long histories and histories "
            "with windows next to 2^31-1 are executed on real inFlow / trInFlow values; TLC validates the recorded calls with a "
            "monitor that rebuilds the peer's view from the returned window updates only; the same monitor is fed from the wire of "
            "a real http2Server and a real http2Client talking to a scripted raw HTTP/2 peer inside testing/synctest (DATA incl. "
            "padded and padding-only frames vs WINDOW_UPDATE / SETTINGS / RST_STREAM received (numbers logged as two limbs of 10^6, exact limb arithmetic in the monitor).",
    "note": "The literal clause 'restored to at least the configured window' does not hold by design (updates are batched until "
            "limit/4 is pending) and is reported as a known finding; so is the cap when a BDP limit raise arrives while the extra "
            "window of a ~2 GiB read request is outstanding. The BDP estimator's arithmetic is not modelled (only its effect "
            "newLimit); filling a window next to 2^31-1 with 16 KiB frames is not replayed.",
}

SIG_LITERAL = "C04:literal-window-restored:batched-updates"
SIG_CAPNL = "C04:cap:newlimit-while-adjust-window-outstanding"
SIG_LOW_CONN = "C04:limit-lowered-by-bdp:conn-window-update-underflow"
SIG_LOW_STREAM = "C04:limit-lowered-by-bdp:stream-wedged-by-unflushed-pending-update"


def step_of(state_text, label):
    m = re.match(r'(\w+)(?:\((.*)\))?', label)
    name, args = m.group(1), (m.group(2) or "")
    args = [int(a.strip()) for a in args.split(",")] if args else []
    table = {"RequestT": "request", "DataT": "data", "PadReadT": "pad", "ReadT": "read", "NewLimitT": "newlimit",
             "TrDataT": "trdata", "TrResetT": "trreset", "TrNewLimitT": "trnewlimit"}
    if name not in table:
        raise Inconclusive("unknown action label " + label)
    st = {"a": table[name]}
    if args:
        st["n"] = args[0]
    return st


def cfg_consts(ctx, cfg):
    txt = open(os.path.join(ctx.specdir, cfg)).read()
    return {k: int(v) for k, v in re.findall(r"^(\w+) = (\d+)$", txt, re.M)}


def expect_violated(ctx, cfg, inv, what):
    r = ctx.tlc("InFlowMC", cfg, workers=2)
    if r.violated != inv:
        raise Inconclusive("%s: %s was expected to violate %s (got %s)\n%s" % (what, cfg, inv, r.violated, r.tail()))
    ctx.log("SPEC-LEVEL FINDING %s: %s violates %s as documented (%.1fs)" % (what, cfg, inv, r.wall))


def report(ctx, res, tpath, what):
    idx, seg = ctx.trace_segment(tpath, res["line"])
    return ("%s: clause %s at trace line %d (history %d)" % (what, res["clause"], res["line"], idx),
            {"clause": res["clause"], "line": res["line"], "segment": seg[:300]})


def run(ctx):
    # One TLC run per configuration serves both as the exhaustive check (the cfg lists the invariants) and as the
    # source of behaviours (state-graph dump).  InFlowNLMC: stream level with padding, large messages and limit
    # raises (CONSTRAINT Unmarked cuts behaviours at the known cap-at-newLimit mark); InFlowConnMC: connection level.
    graphs = []
    if ctx.quick():
        graphs.append(("InFlowNLMC.cfg", ctx.dump_graph("InFlowMC", "InFlowNLMC.cfg", workers=8), 700))
        graphs.append(("InFlowConnMC.cfg", ctx.dump_graph("InFlowMC", "InFlowConnMC.cfg", workers=2), 150))
    else:
        ctx.mc("InFlowMC", "InFlowMCThorough.cfg", workers=8)
        ctx.mc("InFlowMC", "InFlowNLMCThorough.cfg", workers=8)
        ctx.mc("InFlowMC", "InFlowConnMCThorough.cfg", workers=2)
        expect_violated(ctx, "InFlowLit.cfg", "I_Literal", "literal reading of 'restored to at least the configured window'")
        expect_violated(ctx, "InFlowCapNL.cfg", "I_NoViol", "cap exceeded by a limit raise while maybeAdjust's extra window is outstanding")
        graphs.append(("InFlowGenThorough.cfg", ctx.dump_graph("InFlowMC", "InFlowGenThorough.cfg", workers=8), 8000))
        graphs.append(("InFlowGenNLThorough.cfg", ctx.dump_graph("InFlowMC", "InFlowGenNLThorough.cfg", workers=8), 4000))
        graphs.append(("InFlowConnMC.cfg", ctx.dump_graph("InFlowMC", "InFlowConnMC.cfg", workers=2), None))
    ctx.neg("InFlowMC", "InFlowNeg.cfg", expect="I_NoWedge", workers=2)

    binary = ctx.go_build("internal/transport", name="c04", only=r"zz_verif_c04_")

    # ---- behaviours from TLC: edge cover of the bounded graphs
    behs = []
    shift = (1 << 31) - 1
    for cfg, g, lim in graphs:
        c = cfg_consts(ctx, cfg)
        bs = ctx.edge_cover(g, step_of, limit=lim)
        init = {"a": "init", "limit": c["Limit"], "trlimit": c["TrLimit"]}
        for b in bs:
            behs.append([init] + b)
            ctx.count(b, nontrivial=len(b) >= 2)
        # the behaviours with a large read request and no limit raise, re-run with the limit moved next to the real
        # cap: limit + n > MaxWin in the model iff limit_real + n > 2^31-1 on the code (maybeAdjust's clamp)
        s = shift - c["MaxWin"]
        init2 = {"a": "init", "limit": c["Limit"] + s, "trlimit": c["TrLimit"] + s}
        sub = [b for b in bs if any(st["a"] == "request" and st["n"] + c["Limit"] >= c["MaxWin"] for st in b)
               and not any(st["a"] in ("newlimit", "trnewlimit") for st in b)]
        ctx.rng.shuffle(sub)
        for b in sub[:ctx.pick(100, 1000)]:
            behs.append([init2] + b)
            ctx.count(["shifted"] + b, nontrivial=True)
    ctx.sample(behs[len(behs) // 2])
    bpath = os.path.join(ctx.run, "beh.ndjson")
    write_ndjson(bpath, behs)
    t_replay = os.path.join(ctx.run, "trace-replay.ndjson")
    ctx.driver(binary, "TestVerifC04Replay", {"VERIF_BEHAVIOURS": bpath, "VERIF_OUT": t_replay})
    t_random = os.path.join(ctx.run, "trace-random.ndjson")
    n = ctx.pick(30, 300)
    ctx.driver(binary, "TestVerifC04Random", {"VERIF_OUT": t_random, "VERIF_N": n})
    ctx.count({"random_histories": n, "seed": ctx.seed}, n=n)
    t_big = os.path.join(ctx.run, "trace-big.ndjson")
    ctx.driver(binary, "TestVerifC04Big", {"VERIF_OUT": t_big})
    # ---- raw-peer level: real http2Server / http2Client against a scripted HTTP/2 peer (wire trace)
    t_wire = os.path.join(ctx.run, "trace-wire.ndjson")
    n = ctx.pick(24, 240)
    out = ctx.driver(binary, "TestVerifC04Wire", {"VERIF_OUT": t_wire, "VERIF_N": n})
    m = re.search(r"VERIF_SUMMARY (\{.*\})", out)
    wsum = json.loads(m.group(1)) if m else {}
    ctx.cov["wire"] = wsum
    if not wsum.get("parked"):
        raise Inconclusive("raw-peer driver: no history had NewStream parked across a limit raise: %s" % wsum)
    ctx.count({"wire_histories": n, "seed": ctx.seed}, n=n)
    t_all = os.path.join(ctx.run, "trace-all.ndjson")
    with open(t_all, "w") as out:
        for p in (t_replay, t_random, t_big, t_wire):
            out.write(open(p).read())

    # ---- strict clauses: accept / reject-only-excess / cap / no-wedge (stream and connection)
    res = ctx.validate("InFlowTrace", "InFlowTrace.cfg", t_all)
    if not res["accepted"]:
        ctx.violation(*report(ctx, res, t_all, "replay of TLC behaviours + random histories (seed %d) + near-cap histories + raw-peer wire histories" % ctx.seed))

    # ---- the literal clause, reported separately.  It can only fail alone (without I_NoWedge, which is marked
    #      first) when the shortfall is below limit/4, i.e. exactly the batched-updates class.
    t_lit = t_all
    if ctx.quick():
        t_lit = os.path.join(ctx.run, "trace-lit.ndjson")
        with open(t_lit, "w") as out:
            out.writelines(open(t_random).readlines()[:1500])
    res = ctx.validate("InFlowTrace", "InFlowTraceLit.cfg", t_lit, count_resets=False)
    if not res["accepted"]:
        text, art = report(ctx, res, t_lit, "literal clause 'peer view >= configured window once everything was read'")
        if res["clause"] == "I_Literal":
            ctx.finding(SIG_LITERAL, text, art)
        elif not ctx.violations:
            ctx.violation(text, art)

    # ---- limit raise while the extra window of a huge read request is outstanding (near 2^31-1)
    t_nl = os.path.join(ctx.run, "trace-bignl.ndjson")
    ctx.driver(binary, "TestVerifC04BigNewLimit", {"VERIF_OUT": t_nl})
    res = ctx.validate("InFlowTrace", "InFlowTrace.cfg", t_nl)
    if not res["accepted"]:
        text, art = report(ctx, res, t_nl, "limit raise while maybeAdjust's extra window is outstanding")
        seg = [json.loads(x) for x in art["segment"]]
        big_adjust = any(e.get("ev") == "adjust" and e.get("wu", [0, 0])[0] >= 1000 for e in seg)
        if res["clause"] == "I_CapAtNewLimitAfterAdjust" and big_adjust:
            ctx.finding(SIG_CAPNL, text, art)
        else:
            ctx.violation(text, art)
    # ---- BDP estimate below a configured (non-static) window: updateFlowControl(n) with n < limit
    for case, clause, sig in (("conn", "I_CapConnAtLoweredLimit", SIG_LOW_CONN),
                              ("stream", "I_NoWedgeAfterLimitLowered", SIG_LOW_STREAM)):
        t_low = os.path.join(ctx.run, "trace-lowered-%s.ndjson" % case)
        ctx.driver(binary, "TestVerifC04Lowered", {"VERIF_OUT": t_low, "VERIF_CASE": case})
        res = ctx.validate("InFlowTrace", "InFlowTrace.cfg", t_low)
        if not res["accepted"]:
            text, art = report(ctx, res, t_low, "limit lowered by a BDP estimate below the configured window (%s level)" % case)
            if res["clause"] == clause:
                ctx.finding(sig, text, art)
            else:
                ctx.violation(text, art)
    ctx.cov["rule"] = ("behaviours = edge cover of the TLC state graphs of InFlowMC (stream level with padding, large messages and limit raises; "
                       "connection-level events), each executed call by call on real inFlow / trInFlow values, plus the subset with "
                       "large read requests re-run with the limit shifted next to 2^31-1; non-trivial = >= 2 steps; distinct by step "
                       "sequence; plus seeded random histories of 30-330 steps and hand-picked near-cap histories")
    ctx.assumptions += [
        "the application follows Stream.read (one outstanding read request, reads at most what is buffered)",
        "model checking and the replayed / random histories call newLimit only with a larger value (its documented precondition); "
        "the case n < limit, which updateFlowControl produces when InitialWindowSize / InitialConnWindowSize configure more than the "
        "first BDP estimates, is executed on the real code by a dedicated driver only and is reported as a known finding",
        "DATA frames are at most 16384 bytes in random and near-cap histories (gRPC's max frame size)",
    ]
