"""C41 — RLS keys are faithful and the RLS cache is consistent (specs RLSKeys, RLSCache, RLSLookback)."""
import json
import os
import re

from vcheck import Inconclusive, write_ndjson, read_ndjson

META = {
    "engine": "RLS",
    "level": "model_checking",
    "text": "Three TLA+ specifications. RLSKeys.tla is a reference of keys.BuilderMap.RLSKey (builder selection by path, first present "
            "header per key builder, comma-joined values, host/service/method/constant keys) and of the cache-key string; TLC checks "
            "on a bounded domain that the reference satisfies the declarative property text and that an escaped join is injective on "
            "key maps (negative controls: the unescaped join of mapToString is not; last-present-header reference). RLSCache.tla models "
            "dataCache + lru as a sequential machine (add/get/update-size/remove/resize/expire/advance); TLC checks size = sum of entry "
            "sizes and the LRU eviction clause (least recently used first, only while over the limit, stopping at the first entry that "
            "is not yet evictable) for all histories up to 4-5 operations (negative controls: get does not refresh recency; eviction "
            "at size = limit). RLSLookback.tla models the adaptive throttler's lookback window (ring of bins) against the ghost list "
            "of all events. Real code: (config, request, KeyMap) tuples of the real key builder, every transition of the cache "
            "specification and seeded random operation sequences on the real dataCache (virtual time), and seeded random timelines "
            "of the real lookback/Throttler (clock going backwards) are recorded and validated by TLC against the specifications.",
    "note": "Injectivity of the cache-key string is judged over sets of requests of one path; the collision caused by the unescaped "
            "',' / '=' join is reported under the signature C41:keymap-collision:unescaped-separator, any other collision is a "
            "violation. The cache is driven inside the documented domain (no addEntry for a live key).",
}

SIG = "C41:keymap-collision:unescaped-separator"


def b2s(bs):
    return bytes(bs).decode("latin-1")


def judge(ctx, res, tpath, what, rows=None):
    if res["accepted"]:
        return
    if rows is not None:
        seg = [rows[res["line"] - 1]]
        idx = res["line"]
    else:
        idx, seg = ctx.trace_segment(tpath, res["line"])
    ctx.violation("%s: clause %s at trace line %d (behaviour %d)" % (what, res["clause"], res["line"], idx),
                  {"clause": res["clause"], "segment": [json.dumps(s)[:2000] if not isinstance(s, str) else s[:2000] for s in seg[:200]]})


# ------------------------------------------------------------------------------------------ keys
def first_collision(row):
    """Smallest colliding pair of an 'inj' record (presentation of the witness only)."""
    best = None
    items = row["items"]
    by = {}
    for it in items:
        by.setdefault(tuple(it["str"]), []).append(it)
    for s, its in by.items():
        maps = []
        for it in its:
            m = {b2s(k): b2s(v) for k, v in it["map"]}
            if m not in maps:
                maps.append(m)
        if len(maps) >= 2:
            maps.sort(key=lambda m: (sum(len(k) + len(v) for k, v in m.items()), sorted(m.items())))
            cand = (len(s), {"str": b2s(s), "map1": maps[0], "map2": maps[1]})
            if best is None or cand[0] < best[0]:
                best = cand
    return best[1] if best else None


def run_keys(ctx):
    ctx.mc("RLSKeysMC", "RLSKeysMC.cfg", workers=4)
    ctx.neg("RLSKeysMC", "RLSKeysNeg.cfg", expect="I_Injective", workers=2)
    if not ctx.quick():
        ctx.neg("RLSKeysMC", "RLSKeysNeg2.cfg", expect="I_Faithful", workers=2)
    binary = ctx.go_build("balancer/rls/internal/keys", name="c41k", only=r"zz_verif_c41k_")
    tpath = os.path.join(ctx.run, "keys.ndjson")
    spath = os.path.join(ctx.run, "keys-sep.ndjson")
    n = ctx.pick(15, 120)
    ctx.driver(binary, "TestVerifC41Keys", {"VERIF_OUT": tpath, "VERIF_OUT_SEP": spath, "VERIF_N": n})
    rows = read_ndjson(tpath)
    for r in rows:
        if r["ev"] == "key":
            ctx.count(["key", r["md"], r["path"], r["map"]], nontrivial=bool(r["map"]))
        elif r["ev"] == "inj":
            ctx.count(["inj", r["items"]], nontrivial=len(r["items"]) >= 2, n=len(r["items"]))
    ks = [r for r in rows if r["ev"] == "key" and r["map"]]
    if ks:
        r = ks[len(ks) // 2]
        ctx.sample({"path": b2s(r["path"]), "md": {b2s(h["n"]): [b2s(v) for v in h["v"]] for h in r["md"]},
                    "map": {b2s(k): b2s(v) for k, v in r["map"]}, "str": b2s(r["str"])})
    res = ctx.validate("RLSKeysTrace", "RLSKeysTrace.cfg", tpath, count_resets=False)
    ctx.cov["traces_validated_against_impl"] += len(rows)
    judge(ctx, res, tpath, "RLS key builder (values without separators)", rows)
    # requests whose header values contain ',' / '=': every clause but the known collision class is a
    # verdict (Mark); the known class is counted by TLC in the drift register and reported as a finding
    srows = read_ndjson(spath)
    for r in srows:
        if r["ev"] == "inj":
            ctx.count(["inj", r["items"]], nontrivial=len(r["items"]) >= 2, n=len(r["items"]))
    res = ctx.validate("RLSKeysTrace", "RLSKeysTraceTol.cfg", spath, count_resets=False)
    ctx.cov["traces_validated_against_impl"] += len(srows)
    judge(ctx, res, spath, "RLS key builder (values with separators)", srows)
    if res["drift_count"] and res["drift"] == "KNOWN_C41_unescaped_separator":
        wit = None
        for r in srows:          # smallest witness among the recorded sets (presentation only)
            if r["ev"] == "inj":
                w = first_collision(r)
                if w and (wit is None or len(w["str"]) < len(wit["str"])):
                    wit = w
        ctx.finding(SIG, "two different RLS key maps share the cache-key string (mapToString joins k=v pairs with ',' without "
                         "escaping): %s" % json.dumps(wit), {"witness": wit, "trace_line": res["drift_line"], "sets": res["drift_count"]})
    elif res["drift_count"]:
        raise Inconclusive("unexpected drift name %s in the separator trace" % res["drift"])


# ------------------------------------------------------------------------------------------ cache
def cache_step(state_text, label):
    m = re.match(r'(\w+)(?:\((.*)\))?', label)
    name, args = m.group(1), (m.group(2) or "")
    a = [int(x.strip()) for x in args.split(",")] if args else []
    name = name[:-1] if name.endswith("T") else name
    if name == "Add":
        return {"a": "add", "k": a[0], "sz": a[1], "dly": a[2], "ttl": a[3]}
    if name == "Get":
        return {"a": "get", "k": a[0]}
    if name == "Upd":
        return {"a": "upd", "k": a[0], "sz": a[1]}
    if name == "Remove":
        return {"a": "remove", "k": a[0]}
    if name == "Resize":
        return {"a": "resize", "n": a[0]}
    if name == "Expire":
        return {"a": "expire"}
    if name == "Advance":
        return {"a": "advance", "d": a[0]}
    raise Inconclusive("unknown action label " + label)


def run_cache(ctx):
    # quick: the graph dump below is itself an exhaustive check of the generation scope (all invariants are in its cfg)
    if not ctx.quick():
        ctx.mc("RLSCacheMC", "RLSCacheMCdeep.cfg", workers=8)
        ctx.neg("RLSCacheMC", "RLSCacheNeg2.cfg", expect="I_EvictLRU", workers=2)
    ctx.neg("RLSCacheMC", "RLSCacheNeg.cfg", expect="I_EvictLRU", workers=2)
    binary = ctx.go_build("balancer/rls", name="c41c", only=r"zz_verif_c41c_")
    g = ctx.dump_graph("RLSCacheMC", "RLSCacheGen.cfg", workers=4)
    behs = ctx.edge_cover(g, cache_step, limit=ctx.pick(700, 5000))
    bpath = os.path.join(ctx.run, "cache-beh.ndjson")
    tpath = os.path.join(ctx.run, "cache-replay.ndjson")
    write_ndjson(bpath, behs)
    ctx.driver(binary, "TestVerifC41CacheReplay", {"VERIF_BEHAVIOURS": bpath, "VERIF_OUT": tpath, "VERIF_INITMAX": 3})
    for b in behs:
        ctx.count(["cache", b], nontrivial=len(b) >= 2)
    ctx.sample(behs[len(behs) // 2])
    judge(ctx, ctx.validate("RLSCacheTrace", "RLSCacheTrace.cfg", tpath), tpath, "RLS data cache, replay of TLC behaviours")
    tpath2 = os.path.join(ctx.run, "cache-random.ndjson")
    n = ctx.pick(80, 700)
    ctx.driver(binary, "TestVerifC41CacheRandom", {"VERIF_OUT": tpath2, "VERIF_N": n})
    ctx.count({"cache_random_runs": n, "seed": ctx.seed}, n=n)
    judge(ctx, ctx.validate("RLSCacheTrace", "RLSCacheTrace.cfg", tpath2), tpath2, "RLS data cache, random operation sequences seed %d" % ctx.seed)


# ------------------------------------------------------------------------------------------ lookback
def run_lookback(ctx):
    if not os.path.exists(os.path.join(ctx.specdir, "RLSLookbackTrace.tla")):
        return False
    ctx.mc("RLSLookbackMC", ctx.pick("RLSLookbackMC.cfg", "RLSLookbackMCdeep.cfg"), workers=ctx.pick(4, 8))
    ctx.neg("RLSLookbackMC", "RLSLookbackNeg.cfg", expect="I_WindowSum", workers=2)
    binary = ctx.go_build("balancer/rls/internal/adaptive", name="c41l", only=r"zz_verif_c41l_")
    tpath = os.path.join(ctx.run, "lookback.ndjson")
    n = ctx.pick(80, 600)
    ctx.driver(binary, "TestVerifC41Lookback", {"VERIF_OUT": tpath, "VERIF_N": n})
    ctx.count({"lookback_runs": n, "seed": ctx.seed}, n=n)
    judge(ctx, ctx.validate("RLSLookbackTrace", "RLSLookbackTrace.cfg", tpath), tpath, "adaptive throttler lookback window seed %d" % ctx.seed)
    return True


def run(ctx):
    # VERIF_C41_PART=keys|cache|lookback restricts the run to one part (debugging / mutant runs only)
    part = os.environ.get("VERIF_C41_PART", "")
    lb = True
    if part in ("", "keys"):
        run_keys(ctx)
    if part in ("", "cache"):
        run_cache(ctx)
    if part in ("", "lookback"):
        lb = run_lookback(ctx)
    if part:
        ctx.assumptions.append("PARTIAL RUN: only part %r of C41 was executed" % part)
    ctx.cov["rule"] = ("keys: one evaluation per recorded (config, request) and per member of an injectivity set, distinct by input, "
                       "non-trivial = non-empty key map / set of >= 2 requests; cache: behaviours = edge cover of the TLC state graph "
                       "of RLSCache.tla (BFS prefix + one transition) executed on the real dataCache, non-trivial = >= 2 operations, "
                       "plus seeded random operation sequences of 8-37 operations"
                       + ("; lookback: seeded random timelines of add/sum with a clock that may go backwards" if lb else ""))
    ctx.assumptions += ["TLC's evaluation of the RLSKeys / StrOps operators is trusted as the oracle",
                        "the cache is driven through its in-package API (addEntry/getEntry/updateEntrySize/resize/evictExpiredEntries), "
                        "not through a full RLS policy; R4: no addEntry for a live key"]
    if not lb:
        ctx.assumptions.append("the adaptive-throttler clause (last-30-seconds window) is not covered by this check")
