"""C42 — ADS requests carry correct versions, nonces and subscriptions (specs ADSObs / ADS)."""
import os

from vcheck import Inconclusive, parse_tla_state
import _xdsc as X

META = {
    "engine": "ADS",
    "level": "model_checking",
    "text": "ADSObs.tla states the property as a pure observer of what one management server sees (every DiscoveryRequest is judged "
            "against the version of the last fully valid response of its type, the nonce of the latest response of its type on the "
            "current stream, the subscription-set history, NACK error detail, node on the first request of a stream; a response is "
            "never read while a watcher of the previous one has not called onDone; at quiescence the last request of every type "
            "carries the final set). ADS.tla models the client's mechanism (snapshot queue + send goroutine, sendExisting on a new "
            "stream, ACK/NACK from the recv goroutine, flow control, channel release) and TLC checks that the observer never fires "
            "for all interleavings up to 7 (thorough 9) events over 2 types x 2 names, 3 responses, 2 streams (negative controls: "
            "nonces not reset on a new stream; a response read while watchers are pending). Every transition of a bounded scope and "
            "seeded random input sequences are executed on the real xdsclient.XDSClient inside a testing/synctest bubble with a "
            "scripted TransportBuilder/Transport/Stream that decodes every DiscoveryRequest, two toy resource types and watchers "
            "that withhold onDone; TLC validates every recorded line with the same observer.",
    "note": "Readings (R2): names = current set or an in-order snapshot (TLC refuted the two stronger readings on the mechanism "
            "model, see ADSObs.tla); a response for a type never subscribed on the channel may be ignored or recorded; the version "
            "state belongs to the channel (a channel released after the last unwatch starts again with empty versions). "
            "'Accepted response' = every resource in it decoded and validated. The scripted stream fails Send once the server has "
            "ended the stream (as a gRPC stream does); requests attempted on it are not judged. Only one server is used here. "
            "Watchers created in a burst (no quiescence after the watch) never withhold onDone, so that a callback recorded by a "
            "holding watcher after a 'read' line is always caused by that response. "
            "Not a clause of the property but reported as DRIFT D_StreamNotRead: after a response with an unregistered type URL "
            "the real client never calls Recv again (ADS flow control stays pending because onDone is never invoked).",
}


def wid(t, n):
    return (int(t) - 1) * len(X.NAMES) + X.NAMES.index(n) + 1


def step_of(state_text, lbl):
    name, a = X.label(lbl)
    if name == "Subscribe":
        return {"a": "watch", "w": wid(a[0], a[1]), "t": int(a[0]), "n": a[1], "hold": True}
    if name == "Unsubscribe":
        return {"a": "unwatch", "w": wid(a[0], a[1])}
    if name in ("SendQueued", "ReadQueued", "Process"):
        return None  # internal steps of the client
    if name == "StreamUp":
        return {"a": "up", "s": 1}
    if name == "StreamBreak":
        return {"a": "break", "s": 1}
    if name == "Done":
        return {"a": "done", "w": 0}
    if name == "Serve":
        t, kind = int(a[0]), a[1]
        res = []
        if t != 0 and kind != "empty":
            subs = X.tla_set(parse_tla_state(state_text, only={"msubs"})["msubs"][t - 1])
            res = [{"n": n, "v": "u#"} for n in subs]
            if kind == "invalid":
                res[0]["v"] = "bad#"
        return {"a": "resp", "s": 1, "t": t, "res": res}
    raise Inconclusive("unknown action label " + lbl)


def run(ctx):
    if not X.dev("nomc"):
        ctx.mc("ADSMC", ctx.pick("ADSMC.cfg", "ADSMCBig.cfg"), workers=8)
        ctx.neg("ADSMC", "ADSNeg.cfg", expect="I_NoViol", workers=2)
        ctx.neg("ADSMC", "ADSNeg2.cfg", expect="I_NoViol", workers=2)
    binary = ctx.go_build(X.PKG)
    if not X.dev("noreplay"):
        g = ctx.dump_graph("ADSMC", ctx.pick("ADSGen.cfg", "ADSGenBig.cfg"))
        behs = X.clean(ctx.edge_cover(g, step_of))
        lim = ctx.pick(1200, 12000)
        ctx.log("behaviours: %d (limit %d)" % (len(behs), lim))
        if len(behs) > lim:
            ctx.rng.shuffle(behs)
            behs = behs[:lim]
        tpath = X.replay(ctx, binary, behs, "replay")
        X.judge(ctx, ctx.validate("ADSTrace", "ADSTrace.cfg", tpath), tpath, "replay of TLC behaviours")
    tpath2 = X.random_runs(ctx, binary, "ads", ctx.pick(250, 4000), "random")
    X.judge(ctx, ctx.validate("ADSTrace", "ADSTrace.cfg", tpath2), tpath2, "random input sequences seed %d" % ctx.seed)
    ctx.cov["rule"] = ("behaviours = edge cover of the TLC state graph of ADS.tla (BFS prefix + one transition; the client's internal "
                       "steps SendQueued / ReadQueued are dropped, duplicates removed), executed step by step on the real "
                       "xdsclient.XDSClient with quiescence (synctest.Wait) after every input; non-trivial = >= 2 inputs; distinct "
                       "by input sequence; plus seeded random input sequences of 8-38 inputs (watch/unwatch bursts without "
                       "waiting, holding and non-holding watchers, valid / invalid / undecodable / unknown-type / empty responses, "
                       "stream breaks, failed connects, backoff and watch-expiry sleeps)")
    ctx.assumptions += ["scripted stream: Send fails after the server ended the stream; Recv returns queued responses before the error",
                        "virtual time (testing/synctest): timers fire only while the driver sleeps"]
