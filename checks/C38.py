"""C38 — Weighted random choice, drops and circuit breaking are exact."""
import json
import os

from vcheck import read_ndjson

META = {
    "engine": "WrrExact",
    "level": "model_checking",
    "text": "WrrExact.tla is a declarative reference of the weighted random selector (first item whose accumulated weight exceeds "
            "the draw), of the EDF selector in exact rational arithmetic, of the xDS category dropper (fraction min(num/den,1) in "
            "lowest terms) and of the circuit-breaking counter; TLC checks on a bounded domain (all weight lists of <= 3 (thorough 4) "
            "items over {0,1,2,5}, all drop fractions with denominators <= 6 and /100, max_requests <= 3) that the references satisfy "
            "the statement: histogram over the whole range of the random source = w_i/sum(w), every window of sum(w) consecutive EDF "
            "choices holds item i w_i times, in-flight <= max and back to 0 (two negative controls).  The real randomWRR / edfWrr and "
            "the real cluster_impl picker (newDropper, dropRequestsPerMillion, ClusterRequestsCounter; max_requests 0..3 / unset also set through the real balancer's UpdateClientConnState, first configuration and updates) are run with the random source "
            "replaced by an enumerator that visits every value of the requested range; TLC accumulates the histograms from the recorded "
            "outputs and judges them against the property and the reference.",
    "note": "Decides exactly the enumerated weight lists, drop configurations (denominators 100 / 10^4 / 10^6 as produced by the EDS "
            "parser) and pick/done sequences; numerators above the denominator (up to 2^32-1, incl. 429497/100, 42949673/10^4 whose 32-bit products wrap) are logged as denominator+1 (same min(num/den,1)) with the raw value as a string; ranges above 2000 draws are counted by the driver and only the count is asserted by TLC; "
            "sliding EDF windows of non-dyadic weights are allowed a slack of 1 (float ties), aligned windows are exact.",
    "technique": "TLA+ reference specification model-checked by TLC on a bounded domain; real outputs under an enumerated random "
                 "source validated by TLC",
}


def _validate(ctx, tpath, what):
    rows = read_ndjson(tpath)
    res = ctx.validate("WrrExactTrace", "WrrExactTrace.cfg", tpath, count_resets=False, timeout=1800)
    if not res["accepted"]:
        bad = rows[res["line"] - 1]
        # context: the begin event of the accumulation the failing line belongs to
        beg = None
        for r in reversed(rows[:res["line"]]):
            if r["ev"] in ("randbegin", "dropbegin", "cbbegin", "edf", "dropsum", "droprange"):
                beg = r
                break
        ctx.violation("%s: clause %s violated at %s (input %s)" % (what, res["clause"], json.dumps(bad)[:300], json.dumps(beg)[:300]),
                      {"clause": res["clause"], "event": bad, "input": beg, "line": res["line"]})
    return rows


def run(ctx):
    ctx.mc("WrrExactMC", ctx.pick("WrrExactMC.cfg", "WrrExactMCBig.cfg"), workers=8)
    ctx.neg("WrrExactMC", "WrrExactNeg.cfg", expect="I_RandRef", workers=2)
    ctx.neg("WrrExactMC", "WrrExactNeg2.cfg", expect="I_Cb", workers=2)

    wbin = ctx.go_build("internal/wrr", name="c38wrr", only=r"zz_verif_c38_")
    t1 = os.path.join(ctx.run, "wrr.ndjson")
    ctx.driver(wbin, "TestVerifC38Wrr", {"VERIF_OUT": t1, "VERIF_N": ctx.pick(120, 1500)})
    rows1 = read_ndjson(t1)
    for r in rows1:
        if r["ev"] == "randbegin":
            ctx.count(["rand", r["ws"]], nontrivial=len(r["ws"]) > 1)
            ctx.cov["traces_validated_against_impl"] += 1
        elif r["ev"] == "edf":
            ctx.count(["edf", r["ws"]], nontrivial=len(r["ws"]) > 1)
            ctx.cov["traces_validated_against_impl"] += 1
    for r in [x for x in rows1 if x["ev"] == "edf"][::97][:2]:
        ctx.sample(r)

    cbin = ctx.go_build("internal/xds/balancer/clusterimpl", name="c38cluster", only=r"zz_verif_c38_")
    t2 = os.path.join(ctx.run, "cluster.ndjson")
    ctx.driver(cbin, "TestVerifC38Cluster", {"VERIF_OUT": t2, "VERIF_N": ctx.pick(8, 60), "VERIF_SEQLEN": ctx.pick(4, 6),
                                            "VERIF_PERDRAW": ctx.pick(2000, 10000)}, timeout=900)
    t3 = os.path.join(ctx.run, "all.ndjson")
    with open(t3, "w") as f:
        f.write(open(t1).read())
        f.write(open(t2).read())
    _validate(ctx, t3, "internal/wrr selectors + cluster_impl picker")
    rows = read_ndjson(t2)
    seq = []
    for r in rows:
        if r["ev"] in ("dropbegin", "dropsum", "droprange"):
            ctx.count(["drop", r["numraw"], r["den"], r.get("st", "READY")], nontrivial=r["num"] > 0)
            ctx.cov["traces_validated_against_impl"] += 1
            if r["ev"] == "dropsum":
                ctx.sample(r)
        elif r["ev"] == "cbbegin":
            if len(seq) > 1:
                ctx.count(["cb", seq], nontrivial=len(seq) > 2)
                ctx.cov["traces_validated_against_impl"] += 1
            seq = [r["max"], r.get("via", "picker")]
        elif r["ev"] in ("cbpick", "cbdone"):
            seq.append(r.get("res", "done"))
        elif r["ev"] == "reset" and seq:
            ctx.count(["cb", seq], nontrivial=len(seq) > 2)
            ctx.cov["traces_validated_against_impl"] += 1
            seq = []
    ctx.cov["rule"] = ("one case = one weight list (random / EDF selector, every value of the random source), one drop configuration under "
                       "one child state (every value of the random source), or one pick/done sequence against a fresh request counter; "
                       "non-trivial = more than one item / non-zero numerator / at least two operations")
    ctx.assumptions += ["drop denominators are 100, 10^4 or 10^6 (the only values the EDS parser produces)",
                        "picks and completions are sequential (the statement is about sequential picks)",
                        "the random source is uniform over the range it is asked for"]
