"""C24 — every RPC error is a status with a legal code (spec ErrorTable)."""
import json
import os

from vcheck import Inconclusive, parse_tla_state, write_ndjson, read_ndjson

META = {
    "engine": "ErrorTable",
    "level": "model_checking",
    "text": "ErrorTable.tla is a decision table: error source (picker, config selector, dial-level and call-level per-RPC credentials, "
            "dialer, codec marshal / unmarshal, RPC context, connection closed by either end, context ending during the retry backoff after a retryable first attempt (server "
            "trailers-only UNAVAILABLE / failing picker, retry policy in the service config), a registered encoding.Compressor failing at Compress / Write / Close / "
            "Decompress / Read, server handler) x error value (plain error, status with each of the 16 "
            "non-OK codes, an error wrapping such a status, context.Canceled, context.DeadlineExceeded, io.ErrUnexpectedEOF; context "
            "cancelled / expired before or during the RPC) x API (Invoke, NewStream/SendMsg/RecvMsg) -> set of legal surfaced codes, "
            "with the clauses IsStatus, DefinedCode, A54None, A54Internal. TLC checks the reference against the gRFC A54 clauses on "
            "the whole table (negative control: restricted picker codes passed through) and every TLC-enumerated case is executed "
            "end to end (real client and server over bufconn with an injectable balancer/picker, config selector via a manual "
            "resolver, credentials, dialer and codec); TLC validates every error returned by the client API against the clauses.",
    "note": "Decides exactly the enumerated table with fail-fast RPCs and no retry policy; a surfaced code outside the reference set "
            "that is still a defined, A54-legal status code is reported as drift, not as a violation.",
    "technique": "TLA+ decision table model-checked by TLC; TLC-enumerated cases executed end to end; recorded errors validated by TLC",
}


def run(ctx):
    # one TLC run is both the exhaustive check of the reference table and the export of the cases
    g = ctx.dump_graph("ErrorTableMC", "ErrorTableMC.cfg", workers=2)
    ctx.neg("ErrorTableMC", "ErrorTableNeg.cfg", expect="I_A54", workers=2)
    cases = [parse_tla_state(text, only={"cs"})["cs"] for text in g.nodes.values()]
    cases.sort(key=lambda c: json.dumps(c, sort_keys=True))
    if len(cases) < 500:
        raise Inconclusive("table export too small: %d cases" % len(cases))
    ctx.cov["behaviours_generated"] += len(cases)
    binary = ctx.go_build("internal/zzverif/c24")
    bpath = os.path.join(ctx.run, "cases.ndjson")
    tpath = os.path.join(ctx.run, "rows.ndjson")
    write_ndjson(bpath, cases)
    ctx.driver(binary, "TestVerifC24Table", {"VERIF_BEHAVIOURS": bpath, "VERIF_OUT": tpath})
    rows = read_ndjson(tpath)
    if len(rows) != len(cases):
        raise Inconclusive("driver returned %d rows for %d cases" % (len(rows), len(cases)))
    for r in rows:
        ctx.count([r.get("src"), r.get("kind"), r.get("api")], nontrivial=bool(r.get("errs")))
    for r in rows[:: max(1, len(rows) // 4)][:4]:
        ctx.sample(r)
    res = ctx.validate("ErrorTableTrace", "ErrorTableTrace.cfg", tpath, count_resets=False)
    ctx.cov["traces_validated_against_impl"] += len(rows)
    if not res["accepted"]:
        bad = rows[res["line"] - 1]
        ctx.violation("error table: clause %s violated by case %s" % (res["clause"], json.dumps(bad)[:500]),
                      {"clause": res["clause"], "row": bad})
    ctx.cov["rule"] = ("cases = all states of ErrorTableMC (source x error value x API); each executed once end to end; every non-nil, "
                       "non-io.EOF error returned by Invoke / NewStream / SendMsg / RecvMsg is recorded; non-trivial = at least one "
                       "error surfaced; distinct by case")
    ctx.assumptions += ["fail-fast RPCs, no retry policy, the op sequence of a stream stops at its first non-EOF error"]
