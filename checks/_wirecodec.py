"""Shared by C07 and C08: reference codecs in specs/WireCodec.tla."""
import json
import os
import re

from vcheck import Inconclusive, read_ndjson


def run_codec(ctx, prefix, test, what):
    ctx.mc("WireCodecMC", "WireCodecMC.cfg", workers=8)
    ctx.neg("WireCodecMC", "WireCodecNeg.cfg", expect="I_TimeoutRef", workers=2)
    binary = ctx.go_build("internal/transport", only=r"zz_verif_codec_")
    tpath = os.path.join(ctx.run, "pairs.ndjson")
    n = ctx.pick(3000, 60000)
    out = ctx.driver(binary, test, {"VERIF_OUT": tpath, "VERIF_N": n})
    rows = read_ndjson(tpath)
    for r in rows:
        key = r.get("d") or r.get("s") or r.get("m")
        ctx.count([r["ev"], key], nontrivial=bool(key))
    for r in rows[:: max(1, len(rows) // 4)][:4]:
        ctx.sample(r)
    res = ctx.validate("WireCodecTrace", "WireCodecTrace.cfg", tpath, count_resets=False, timeout=1800)
    ctx.cov["traces_validated_against_impl"] += len(rows)
    if not res["accepted"]:
        bad = rows[res["line"] - 1]
        ctx.violation("%s: clause %s violated by pair %s" % (what, res["clause"], json.dumps(bad)[:400]),
                      {"clause": res["clause"], "pair": bad})
    ctx.cov["rule"] = ("(input, output) pairs recorded from the real codec functions: all boundary values, every short string "
                       "over a small alphabet, and seeded random inputs; each pair is judged by TLC against the TLA+ reference; "
                       "distinct = distinct input, non-trivial = non-empty input")
    ctx.assumptions += ["TLC's evaluation of the BigDec / StrOps operators is trusted as the oracle"]
