"""Helpers shared by C31 and C57 (gated replay of TLC behaviours + stress, judged by TLC monitors)."""
import json
import os
import re
from concurrent.futures import ThreadPoolExecutor

from vcheck import Inconclusive, write_ndjson


def summary(out):
    m = re.search(r"VERIF_SUMMARY (\{.*\})", out)
    if not m:
        raise Inconclusive("driver printed no summary:\n" + out[-2000:])
    return json.loads(m.group(1))


def parallel(jobs, workers=3):
    """Run independent thunks (TLC runs, go builds) concurrently; results in order; first exception re-raised."""
    with ThreadPoolExecutor(workers) as ex:
        futs = [ex.submit(j) for j in jobs]
        return [f.result() for f in futs]


def behaviours(ctx, g, step_of, scope, tag, limit=None, mode="edges"):
    """Edge cover of the state graph g (from ctx.dump_graph) -> behaviours file. Returns (tag, path, behaviours).
    Call it from the main thread, in a fixed order: the sample taken with `limit` uses the seeded ctx.rng."""
    behs = ctx.edge_cover(g, step_of, limit=limit, mode=mode)
    bpath = os.path.join(ctx.run, "beh-%s.ndjson" % tag)
    write_ndjson(bpath, [dict(scope, steps=b) for b in behs])
    return tag, bpath, behs


def replay(ctx, binary, test, gen):
    """Gated replay of the behaviours `gen` (from behaviours()) by driver `test`. Returns (what, trace path)."""
    tag, bpath, behs = gen
    tpath = os.path.join(ctx.run, "trace-%s.ndjson" % tag)
    out = ctx.driver(binary, test, {"VERIF_BEHAVIOURS": bpath, "VERIF_OUT": tpath}, timeout=1500)
    s = summary(out)
    if s["drift"] or s["infeasible"]:
        for n in s["notes"]:
            print("DRIFT property=%s %s %s" % (ctx.prop, tag, n))
    ctx.cov["drift"] += s["drift"] + s["infeasible"]
    for b in behs:
        ctx.count([tag] + [(x["t"], x["p"]) for x in b], nontrivial=len(b) >= 3)
    if behs:
        ctx.sample({"scope": tag, "schedule": [(x["t"], x["p"]) for x in behs[len(behs) // 2]]})
    return "gated replay " + tag, tpath


def stress(ctx, binary, test, rounds, tag):
    """Free-running stress rounds. Returns (what, trace path)."""
    tpath = os.path.join(ctx.run, "trace-%s.ndjson" % tag)
    out = ctx.driver(binary, test, {"VERIF_OUT": tpath, "VERIF_ROUNDS": rounds}, timeout=1500)
    summary(out)
    ctx.count({"stress": tag, "rounds": rounds, "seed": ctx.seed}, n=rounds)
    return "stress %s seed %d" % (tag, ctx.seed), tpath


def validate(ctx, monitor, parts):
    """Validate the concatenation of the traces `parts` = [(what, path)] with one TLC run of `monitor`;
    a rejection becomes a violation that names the part and carries the offending segment."""
    cat = os.path.join(ctx.run, "trace-all-%s-%d.ndjson" % (monitor, ctx._nval))
    bounds = []
    n = 0
    with open(cat, "w") as out:
        for what, path in parts:
            with open(path) as f:
                lines = f.readlines()
            if lines and '"ev":"reset"' not in lines[0].replace(" ", ""):
                lines.insert(0, '{"ev":"reset"}\n')
            out.writelines(lines)
            bounds.append((n + 1, n + len(lines), what))
            n += len(lines)
    res = ctx.validate(monitor, monitor + ".cfg", cat)
    if res["accepted"]:
        return res
    what = next((w for a, b, w in bounds if a <= res["line"] <= b), "?")
    idx, seg = ctx.trace_segment(cat, res["line"])
    ctx.violation("%s: clause %s violated at trace line %d (segment %d)" % (what, res["clause"], res["line"], idx),
                  {"clause": res["clause"], "segment": seg[:400]})
    return res
