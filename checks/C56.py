"""C56 — DNS resolution is paced and targets are parsed correctly (specs DNS / DNSTrace / DNSTarget)."""
import json
import os
import re

from vcheck import Inconclusive, write_ndjson, read_ndjson

META = {
    "engine": "DNS",
    "level": "model_checking",
    "text": "DNS.tla is a discrete-time model of dnsResolver.watcher (lookup; on success wait for a ResolveNow token, then until "
            "lastLookup + MinResolutionInterval; on failure exponential backoff; Close cancels every wait) whose clauses (needs a "
            "request, minimum interval, backoff range, a lookup follows a request once the interval passed, none after Close) TLC "
            "checks for all timelines up to 10 (thorough: 14) ticks (three negative controls). DNSTarget.tla is a byte-string reference of "
            "parseTarget / formatIP (host, host:port, IPv4, [v6], [v6]:port, bare v6, default port, trailing colon rejected, "
            "bracketed output) whose algebraic laws TLC checks on every string over a 6-letter alphabet. TLC timelines (edge cover) "
            "and seeded random millisecond timelines are executed on the real resolver under testing/synctest virtual time with a "
            "scripted NetResolver; TLC validates every lookup instant (DNSTrace.tla) and every (target, output) pair of "
            "parseTarget, formatIP and Build (DNSTargetTrace.tla).",
    "note": "The minimum interval is measured from the COMPLETION of the successful resolution (lookups take scripted virtual time: 0, 1 tick ... 4 ticks > MinInterval; ResolvingTimeout is raised so that long lookups can succeed). Backoff jitter is random in the code: the monitor accepts the whole range 0.8..1.2 x min(1s*1.6^k, 120s). 'A request has "
            "arrived' is read in the weakest way: every lookup after a success is justified by a distinct ResolveNow call (the code "
            "keeps a one-token channel, so a token stored before the successful lookup finished is honoured after it).",
    "technique": "TLA+ spec + TLC exhaustive check; TLC timelines replayed on the real resolver under virtual time; TLA+ reference oracle for (input, output) pairs; TLC trace validation",
}


def step_of(state_text, label):
    m = re.match(r'(\w+?)T?(?:\((.*)\))?$', label)
    if not m or m.group(1) not in ("Tick", "ResolveNow", "Close", "LookupEnd", "LookupStart", "TakeRN", "TimerFire"):
        raise Inconclusive("unknown action label " + label)
    name, args = m.group(1), [a.strip() for a in (m.group(2) or "").split(",")]
    return {"Tick": {"a": "tick"}, "ResolveNow": {"a": "rn"}, "Close": {"a": "close"},
            "LookupEnd": {"a": "end", "ok": args[0] == "TRUE"}, "LookupStart": {"a": "start"},
            "TakeRN": {"a": "takern"}, "TimerFire": {"a": "fire"}}[name]


def summary(out):
    m = re.search(r"VERIF_SUMMARY (\{.*\})", out)
    if not m:
        raise Inconclusive("driver printed no summary:\n" + out[-2000:])
    s = json.loads(m.group(1))
    if s.get("panics"):
        raise Inconclusive("driver recovered %d panics" % s["panics"])
    return s


def judge(ctx, res, tpath, what):
    if res["accepted"]:
        return
    idx, seg = ctx.trace_segment(tpath, res["line"])
    ctx.violation("%s: clause %s violated at trace line %d (timeline %d)" % (what, res["clause"], res["line"], idx),
                  {"clause": res["clause"], "segment": seg[:300]})


def run(ctx):
    # ---- design level
    ctx.mc("DNSMC", ctx.pick("DNSMC.cfg", "DNSMCBig.cfg"), workers=8)
    for k in ctx.pick((1, 3), (1, 2, 3)):
        ctx.neg("DNSMC", "DNSNeg%d.cfg" % k, expect="I_NoViol", workers=2)
    ctx.mc("DNSTargetMC", ctx.pick("DNSTargetMC.cfg", "DNSTargetMC5.cfg"), workers=8)
    ctx.neg("DNSTargetMC", "DNSTargetNeg.cfg", expect="I_TrailingColon", workers=2)
    binary = ctx.go_build("internal/resolver/dns", name="c56", only=r"zz_verif_c56_")

    # ---- pacing: TLC timelines
    g = ctx.dump_graph("DNSMC", "DNSGen.cfg")
    behs = ctx.edge_cover(g, step_of, limit=ctx.pick(1000, None))
    bpath = os.path.join(ctx.run, "beh.ndjson")
    tpath = os.path.join(ctx.run, "trace-replay.ndjson")
    write_ndjson(bpath, behs)
    s = summary(ctx.driver(binary, "TestVerifC56Replay", {"VERIF_BEHAVIOURS": bpath, "VERIF_OUT": tpath}))
    if s["infeasible"]:
        print("DRIFT property=C56 %d 'lookup ends' steps found no lookup in flight" % s["infeasible"])
        ctx.cov["drift"] += s["infeasible"]
    for b in behs:
        key = [(x["a"], x.get("ok")) for x in b if x["a"] in ("tick", "rn", "close", "end")]
        ctx.count(key, nontrivial=len(key) >= 3)
    ctx.sample({"timeline": [x["a"] + ("" if "ok" not in x else ":%s" % x["ok"]) for x in behs[len(behs) // 2]]})
    judge(ctx, ctx.validate("DNSTrace", "DNSTrace.cfg", tpath), tpath, "replay of TLC timelines")

    # ---- pacing: random ms timelines
    tpath = os.path.join(ctx.run, "trace-random.ndjson")
    n = ctx.pick(300, 5000)
    s = summary(ctx.driver(binary, "TestVerifC56Random", {"VERIF_OUT": tpath, "VERIF_N": n}, timeout=1200))
    ctx.count({"random_timelines": n, "seed": ctx.seed, "lookups": s["lookups"]}, n=n)
    judge(ctx, ctx.validate("DNSTrace", "DNSTrace.cfg", tpath), tpath, "random timelines seed %d" % ctx.seed)

    # ---- targets
    ppath = os.path.join(ctx.run, "pairs.ndjson")
    s = summary(ctx.driver(binary, "TestVerifC56Targets", {"VERIF_OUT": ppath, "VERIF_N": ctx.pick(200, 5000),
                                                            "VERIF_MAXLEN": ctx.pick(3, 5)}))
    rows = read_ndjson(ppath)
    for r in rows:
        key = r.get("t", r.get("a"))
        ctx.count([r["ev"], key], nontrivial=bool(key))
    ctx.sample(rows[len(rows) // 3])
    res = ctx.validate("DNSTargetTrace", "DNSTargetTrace.cfg", ppath, count_resets=False, timeout=1800)
    ctx.cov["traces_validated_against_impl"] += len(rows)
    if not res["accepted"]:
        bad = rows[res["line"] - 1]
        txt = bytes(bad.get("t", bad.get("a", []))).decode("latin1")
        ctx.violation("target pair: clause %s violated for input %r: %s" % (res["clause"], txt, json.dumps(bad)[:300]),
                      {"clause": res["clause"], "input": txt, "pair": bad})
    ctx.cov["rule"] = ("timelines = edge cover of the TLC state graph of DNS.tla (1 tick = 10 s of virtual time) plus seeded random "
                       "timelines of 5-30 operations at ms granularity; non-trivial = >= 3 environment steps; pairs = grammar-built "
                       "targets (32 hosts x 6 ports x 11 forms), every string of length <= 3 (5) over {a 1 : [ ] .} and seeded "
                       "mutations; distinct by input")
    ctx.assumptions += ["virtual time of testing/synctest; instants rounded down to ms (2 ms slack on backoff bounds)",
                        "TLC's evaluation of the DNSTarget operators is trusted as the oracle for textual IP addresses"]
