"""C48 — RBAC and authz policies are enforced exactly as written."""
import json
import os

from vcheck import Inconclusive, parse_tla_state, read_ndjson, write_ndjson

META = {
    "engine": "RBAC",
    "level": "model_checking",
    "text": "RBAC.tla is a declarative reference of the RBAC policy language as gRPC applies it (recursive Eval over and/or/not/any/"
            "header/url-path/destination and source CIDR on 4-bit abstract addresses mapped to 10.0.0.x/28+ and fd00::x/124+/"
            "destination port/authenticated principal with URI SAN, DNS SAN, subject order/metadata/requested-server-name; Chain: a "
            "DENY engine rejects if some policy matches, an ALLOW engine if none does) and of gRPC authorization policies (Authz: "
            "denied if any deny rule of the list matches, else allowed iff some allow rule matches, whatever the rule names). TLC "
            "enumerates one state per abstract input (every leaf matcher, all trees of depth <= 2 over 3 leaves, all chains of <= 2 "
            "engines x <= 2 policies, every rule body of the vocabulary, every policy with <= 2 deny / 1..2 allow rules over 4 bodies "
            "x 2 names incl. repeated names, some invalid policies) and checks the reference against the property statement on a "
            "bounded request domain (Boolean laws, chain = in-order evaluation, monotonicity, Authz = Chain of the list translation; "
            "negative controls: name-keyed translation, short-circuiting ALLOW engine). The exported inputs plus seeded deeper random "
            "trees/chains/policies are turned into real RBAC protos and policy JSON, evaluated by rbac.NewChainEngine + IsAuthorized "
            "and by authz.NewStatic + Unary/Stream interceptors on contexts carrying peer address, TLS certificate, metadata, "
            "method and local address; TLC validates every recorded decision against the reference.",
    "note": "Decides exactly the enumerated and sampled (policy, request) pairs. Where the two readings of 'URI SANs, then DNS "
            "SANs, then subject' differ (first non-empty source vs. try all) either decision is accepted (drift). Header invert_match, "
            "range/regex matchers other than '.+' and ignore_case belong to C47 and are not generated. The audit-logging side of the "
            "engines is not observed. Known finding routed through KNOWN_FINDINGS.jsonl: repeated rule names in one list overwrite "
            "each other in authz/rbac_translator.go parseRules.",
    "technique": "TLA+ reference specification model-checked by TLC on a bounded domain; TLC-enumerated inputs replayed on the real "
                 "engines; recorded decisions validated by TLC",
}

SIG_DUP = "C48:authz-duplicate-rule-name-overwrites"


def _has_dup(policy):
    for lst in (policy["deny"], policy["allow"]):
        names = [json.dumps(u["name"]) for u in lst]
        if len(set(names)) != len(names):
            return True
    return False


def _single(kind, x):
    anyt = {"k": "any"}
    if kind in ("pleaf", "ptree"):
        return [{"action": "ALLOW", "policies": [{"perms": [x], "prins": [anyt]}]}]
    return [{"action": "ALLOW", "policies": [{"perms": [anyt], "prins": [x]}]}]


def _rand_tree(rng, leaves, depth):
    if depth == 0 or rng.random() < 0.3:
        return rng.choice(leaves)
    k = rng.choice(["and", "or", "not", "and", "or"])
    if k == "not":
        return {"k": "not", "c": [_rand_tree(rng, leaves, depth - 1)]}
    return {"k": k, "c": [_rand_tree(rng, leaves, depth - 1) for _ in range(rng.choice([0, 1, 2, 2, 3]))]}


def run(ctx):
    big = not ctx.quick()
    g = ctx.dump_graph("RBACMC", "RBACMCBig.cfg" if big else "RBACMC.cfg", workers=4, timeout=3000)
    ctx.neg("RBACMC", "RBACNeg.cfg", expect="I_Authz", workers=2)
    ctx.neg("RBACMC", "RBACNeg2.cfg", expect="I_Chain", workers=2)

    by = {}
    for nid in sorted(g.nodes):
        st = parse_tla_state(g.nodes[nid], only={"kind", "x"})
        if st["kind"] == "seed":
            continue
        by.setdefault(st["kind"], []).append(st["x"])
    for k in by:
        by[k].sort(key=lambda v: json.dumps(v, sort_keys=True))
    need = ("req", "pleaf", "qleaf", "ptree", "qtree", "chain", "rule", "authz")
    if any(not by.get(k) for k in need):
        raise Inconclusive("graph dump lacks input kinds: %s" % {k: len(by.get(k, [])) for k in need})
    reqs = by["req"]
    ctx.log("inputs from TLC: " + ", ".join("%s=%d" % (k, len(by[k])) for k in need))

    rng = ctx.rng
    K = ctx.pick(8, 24)

    def pick_reqs(n):
        idx = list(range(n))
        if n <= K:
            return idx
        return sorted(rng.sample(idx, K))

    # a second request table: attribute-wise recombination of the TLC requests
    nrand = ctx.pick(64, 400)
    auth_keys = ("auth", "cert", "uris", "dns", "cn")
    rreqs = []
    for _ in range(nrand):
        a, b, c, d, e = (rng.choice(reqs) for _ in range(5))
        r = {"path": a["path"], "hv": b["hv"], "fam": c["fam"], "src": c["src"], "dst": d["dst"], "port": d["port"]}
        r["src"] = rng.choice([c["src"], rng.randrange(16)])
        r["dst"] = rng.choice([d["dst"], rng.randrange(16)])
        for k in auth_keys:
            r[k] = e[k]
        rreqs.append(r)

    main, dup = [], []           # inputs without / with a repeated rule name
    main.append({"kind": "reqs", "reqs": reqs})
    dup.append({"kind": "reqs", "reqs": reqs})
    for kind in ("pleaf", "qleaf"):
        for x in by[kind]:
            main.append({"kind": "chain", "engines": _single(kind, x), "ri": list(range(len(reqs)))})
            # the same leaf as the principal/permission of a DENY engine, negated
            main.append({"kind": "chain", "engines": [{"action": "DENY", "policies": [
                {"perms": [{"k": "not", "c": [x]}] if kind == "pleaf" else [{"k": "any"}],
                 "prins": [{"k": "not", "c": [x]}] if kind == "qleaf" else [{"k": "any"}]}]}], "ri": pick_reqs(len(reqs))})
    for kind in ("ptree", "qtree"):
        for x in by[kind]:
            main.append({"kind": "chain", "engines": _single(kind, x), "ri": pick_reqs(len(reqs))})
    for x in by["chain"]:
        main.append({"kind": "chain", "engines": x, "ri": pick_reqs(len(reqs))})
    for x in by["rule"] + by["authz"]:
        (dup if _has_dup(x) else main).append({"kind": "authz", "policy": x, "ri": pick_reqs(len(reqs))})
    ndup = ctx.pick(150, 10 ** 9)      # quick tier: a seeded sample of the repeated-name policies
    if len(dup) - 1 > ndup:
        dup = dup[:1] + [dup[1 + i] for i in sorted(rng.sample(range(len(dup) - 1), ndup))]

    # seeded deeper random inputs over the TLC-exported vocabulary
    nr = ctx.pick(150, 1500)
    pl, ql = by["pleaf"], by["qleaf"]
    bodies = [p["allow"][0] for p in by["rule"] if not p["deny"]]
    names = [[114], [115], [116]]
    main.append({"kind": "reqs", "reqs": rreqs})
    rdup = [{"kind": "reqs", "reqs": rreqs}]
    for _ in range(nr):
        es = []
        for _e in range(rng.choice([1, 2, 2, 3])):
            pols = []
            for _p in range(rng.choice([0, 1, 1, 2, 3])):
                pols.append({"perms": [_rand_tree(rng, pl, 3) for _ in range(rng.choice([0, 1, 1, 2]))],
                             "prins": [_rand_tree(rng, ql, 3) for _ in range(rng.choice([0, 1, 1, 2]))]})
            es.append({"action": rng.choice(["ALLOW", "DENY"]), "policies": pols})
        main.append({"kind": "chain", "engines": es, "ri": pick_reqs(len(rreqs))})
    for _ in range(nr):
        def rl(lo):
            out = []
            for _k in range(rng.choice([lo, 1, 2, 3])):
                b = dict(rng.choice(bodies))
                b["name"] = rng.choice(names)
                out.append(b)
            return out
        pol = {"name": [112, 111, 108], "deny": rl(0), "allow": rl(1)}
        (rdup if _has_dup(pol) else main).append({"kind": "authz", "policy": pol, "ri": pick_reqs(len(rreqs))})
    dup += rdup

    binary = ctx.go_build("internal/zzverif/c48")
    what = "RBAC/authz decision"
    for tag, rows, second in (("main", main, False), ("dup", dup, True)):
        bpath = os.path.join(ctx.run, "c48-%s.in.ndjson" % tag)
        tpath = os.path.join(ctx.run, "c48-%s.trace.ndjson" % tag)
        write_ndjson(bpath, rows)
        ctx.cov["behaviours_generated"] += len(rows)
        ctx.driver(binary, "TestVerifC48", {"VERIF_BEHAVIOURS": bpath, "VERIF_OUT": tpath})
        evs = read_ndjson(tpath)
        npairs = 0
        for e in evs:
            if e["ev"] in ("chain", "authz"):
                key = json.dumps(e.get("engines") or e.get("policy"), sort_keys=True)
                for i in e["ri"][:len(e["dec"])]:
                    ctx.count(key + "#%d" % i, nontrivial=True)
                npairs += len(e["dec"])
        for e in evs[1:: max(1, len(evs) // 3)][:2]:
            ctx.sample({k: e[k] for k in e if k != "reqs"})
        res = ctx.validate("RBACTrace", "RBACTrace.cfg", tpath, count_resets=False, timeout=3000)
        ctx.cov["traces_validated_against_impl"] += npairs
        if res["accepted"]:
            continue
        bad = evs[res["line"] - 1]
        art = {"clause": res["clause"], "event": bad, "requests_table": "first 'reqs' event before trace line %d" % res["line"]}
        if res["clause"] == "C48_AuthzDupName" and second:
            ctx.finding(SIG_DUP, "%s: an accepted authorization policy with a repeated rule name decides as if the earlier rule of that "
                        "name did not exist: %s decisions %s" % (what, bad.get("json"), bad.get("dec")), art)
            # second pass: any OTHER violation among the repeated-name policies is still a violation
            res2 = ctx.validate("RBACTrace", "RBACTraceKnown.cfg", tpath, count_resets=False, timeout=3000)
            if not res2["accepted"]:
                bad = evs[res2["line"] - 1]
                ctx.violation("%s: clause %s violated by %s" % (what, res2["clause"], json.dumps(bad)[:500]),
                              {"clause": res2["clause"], "event": bad})
        else:
            ctx.violation("%s: clause %s violated by %s" % (what, res["clause"], json.dumps({k: bad[k] for k in bad if k != "reqs"})[:500]), art)
    ctx.cov["rule"] = ("one evaluation = one (policy chain or authorization policy, request) pair decided by the real engine / "
                       "interceptor and judged by TLC against RBAC.tla; distinct = distinct (input, request index)")
    ctx.assumptions += ["the driver's mapping of abstract requests to contexts (peer address, synthetic x509 certificate, metadata, "
                        "transport stream method, local address) is faithful",
                        "TLC's evaluation of the RBAC / StrOps operators is trusted as the oracle"]
