"""C37 — Ring hash builds bounded deterministic rings and walks them per A61."""
import json
import os

from vcheck import read_ndjson

SIG = "C37:ring-size-max-plus-one:float-accumulation-of-scale-times-weight"

META = {
    "engine": "RingHash",
    "level": "model_checking",
    "text": "RingHash.tla is a declarative reference of the ring-hash ring in exact rational arithmetic (scale = "
            "min(ceil(m*min)/m, max), entries of endpoint k = ceil(T_k) - ceil(T_(k-1)), T_k = scale * cumulative normalized weight, "
            "endpoints in hash-key order) and of the picker's walk (first entry clockwise with hash >= request hash, skipping "
            "TRANSIENT_FAILURE; random hash: first READY, at most one IDLE endpoint asked to connect and none when one is CONNECTING).  "
            "TLC checks for all endpoint sets of <= 3 (thorough 5) endpoints with weights {1,2,3,100} and bounds {1,2,5,8} that "
            "min <= size <= max and |entries_k - scale*w_k| <= 1 (negative control: scale not capped at max), and for every ring of "
            "<= 3 (4) entries over 2 endpoints / <= 2 (3) over 3 endpoints, every state assignment and request hash that the walk satisfies "
            "the statement.  The "
            "real newRing is run on every insertion order (all permutations for <= 3 endpoints) of the endpoint map for the same "
            "endpoint sets plus default-sized and random sets (<= 12 endpoints, sizes <= 4096), and the real ring_hash balancer (lbtest.RecCC) is taken through histories of resolver updates (endpoints added / removed / reordered, weight and / or hash-key attribute of known endpoints changed) that end in the same endpoint set, its final ring being compared with the ring of the direct update; the real picker built by "
            "newPickerLocked is run on 5 small rings for every state assignment (a sample of 40 in the quick tier) and request hashes just below / equal / just above "
            "every entry, 0, 2^64-1 (xDS request hash, header hash, random hash); TLC validates the recorded rings (hashes as four "
            "16-bit limbs) and pick results.",
    "note": "Decides exactly the enumerated and sampled inputs.  Ring entries of rings above 16 entries are only counted per endpoint "
            "by the driver.  The hash function itself (xxhash of key_index) is not modelled.  Known finding: the ring can have "
            "max_ring_size + 1 entries (float accumulation), routed through KNOWN_FINDINGS; a second tolerant validation pass "
            "judges all other clauses on all inputs.",
    "technique": "TLA+ reference specification (exact rationals) model-checked by TLC on a bounded domain; real rings and pick "
                 "results validated by TLC",
}


def _ctx_of(rows, line):
    i = line - 1
    while i > 0 and rows[i]["ev"] != "ringcfg":
        i -= 1
    return rows[i]


def run(ctx):
    ctx.mc("RingHashMC", ctx.pick("RingHashMC.cfg", "RingHashMCBig.cfg"), workers=ctx.pick(4, 8))
    ctx.neg("RingHashMC", "RingHashNeg.cfg", expect="I_Count", workers=2)
    binary = ctx.go_build("balancer/ringhash", name="c37", only=r"zz_verif_c37_")
    t1 = os.path.join(ctx.run, "ring.ndjson")
    t2 = os.path.join(ctx.run, "pick.ndjson")
    ctx.driver(binary, "TestVerifC37Ring", {"VERIF_OUT": t1, "VERIF_N": ctx.pick(150, 3000), "VERIF_MAXN": ctx.pick(3, 4)})
    ctx.driver(binary, "TestVerifC37Pick", {"VERIF_OUT": t2, "VERIF_ASSIGN": ctx.pick(40, 256)})
    # rings the real ring_hash balancer ends up with after different histories of resolver updates (appended to the ring cases)
    tb = os.path.join(ctx.run, "balancer.ndjson")
    ctx.driver(binary, "TestVerifC37Balancer", {"VERIF_OUT": tb, "VERIF_N": ctx.pick(6, 60)})
    with open(t1, "a") as f:
        f.write(open(tb).read())
    t3 = os.path.join(ctx.run, "all.ndjson")
    with open(t3, "w") as f:
        f.write(open(t1).read())
        f.write(open(t2).read())
    rows = read_ndjson(t3)

    def report(res, what):
        bad = rows[res["line"] - 1]
        cfg = _ctx_of(rows, res["line"])
        short = {k: v for k, v in bad.items() if k != "items"}
        return ("ringhash: clause %s violated (%s): endpoints weights (hash-key order) %s min_ring_size %s max_ring_size %s -> %s"
                % (res["clause"], what, cfg["ws"], cfg["min"], cfg["max"], json.dumps(short)[:300]),
                {"clause": res["clause"], "config": cfg, "event": bad, "line": res["line"]})

    # strict pass over the rings (the pick traces declare max = size + 1, so the size clause is about the ring cases only)
    res = ctx.validate("RingHashTrace", "RingHashTrace.cfg", t1, count_resets=False, timeout=2400)
    if not res["accepted"]:
        text, art = report(res, "strict pass")
        if res["clause"] == "C37_SizeAboveMax":
            # one known input class; everything else is judged by the tolerant pass below, which accepts only
            # "size = max + 1 and the exact (rational) ring size is max"
            ctx.finding(SIG, text, art)
        else:
            ctx.violation(text, art)
    res2 = ctx.validate("RingHashTrace", "RingHashTraceTol.cfg", t3, count_resets=False, timeout=2400)
    if not res2["accepted"] and not (not res["accepted"] and res["clause"] != "C37_SizeAboveMax" and res2["line"] == res["line"]):
        text2, art2 = report(res2, "tolerant pass")
        ctx.violation(text2, art2)
    npick = 0
    for r in rows:
        if r["ev"] == "ringcfg":
            cur = r
        elif r["ev"] == "ring":
            ctx.count(["ring", cur["ws"], cur["min"], cur["max"], r["perm"], r.get("hist")], nontrivial=len(cur["ws"]) > 1)
        elif r["ev"] == "pick":
            npick += 1
            ctx.count(["pick", r["h"], r["random"], r["st"]], nontrivial=True)
    ctx.cov["traces_validated_against_impl"] += sum(1 for r in rows if r["ev"] in ("ring", "pick"))
    ctx.sample(next(r for r in rows if r["ev"] == "pick" and r["random"] and r["exit"]))
    ctx.cov["rule"] = ("one case = one ring built by newRing for one insertion order of one endpoint set and bounds, or one Pick on a "
                       "small ring for one state assignment, request hash and mode; non-trivial = more than one endpoint")
    ctx.assumptions += ["min_ring_size <= max_ring_size <= 4096, sum of weights * max_ring_size < 2^31 (the config parser caps ring sizes; "
                        "keeps the monitor's integers within 32 bits)",
                        "hash collisions between ring entries do not occur in the sampled rings"]
