"""C19 — retry backoff and retry throttling follow gRFC A6 arithmetic (specs Retry, RetryThrottle)."""
import itertools
import json
import os

import _retry
from vcheck import write_ndjson

META = {
    "engine": "Retry+RetryThrottle",
    "level": "model_checking",
    "text": "(a) Retry.tla gives every retry its delay class (pushback value, or backoff exponent k = retries since the last pushback; "
            "TLC checks the exponent against an independent Level-A counter, negative control: exponent not reset after a pushback); "
            "behaviours of the specification are executed end to end in a testing/synctest bubble against a raw HTTP/2 server that logs "
            "the virtual arrival instant of every stream, and TLC checks with exact integer arithmetic (ns, cross-multiplied) that every "
            "observed delay equals the pushback or lies in [0.8,1.2] x min(initial x multiplier^k, max). (b) RetryThrottle.tla is the token "
            "bucket reference (1/8-token units, dyadic ratios so float64 is exact): TLC checks the range invariant for all histories of "
            "length <= 8 and inductively from every in-range state (negative control: no floor at 0); an in-package driver steps the real "
            "retryThrottler created by applyServiceConfigAndBalancer through every success/failure history of length 8 per configuration and "
            "TLC validates token values and refuse decisions. (c) A table of retryThrottling / retryPolicy values is fed to the real "
            "parseServiceConfig and TLC validates accept/reject and the attempt cap against the reference predicates.",
    "note": "Delays are measured in virtual time between the instant the client learns of the failure (start of the application operation, "
            "or the server's answer instant if later) and the arrival of the next stream at the server. Known finding: retryThrottling is "
            "not validated when the service config has no methodConfig field.",
}

SIG_NOMC = "parseServiceConfig accepts out-of-range retryThrottling when the service config has no methodConfig"


def table(ctx):
    thr = []
    for mx, ratio in itertools.product([-1000, 0, 1, 500, 1000000, 1000001, 2000000], [-100, 0, 1, 100, 1500]):
        thr.append({"kind": "thr", "max": mx, "ratio": ratio})
    pol = []
    grid = list(itertools.product([0, 1, 2, 3, 5, 6, 10], [-10, 0, 1, 10], [-1, 0, 5, 50], [-1000, 0, 500, 1000, 2000],
                                  [0, 1, 3], [2, 3, 5]))
    base = (3, 10, 50, 2000, 1, 5)
    keep = set()
    for pos in range(6):     # all one-coordinate deviations from a valid policy
        for g in grid:
            if all(g[i] == base[i] for i in range(6) if i != pos):
                keep.add(g)
    rest = [g for g in grid if g not in keep]
    ctx.rng.shuffle(rest)
    n = ctx.pick(500, len(rest))
    for g in sorted(keep) + rest[:n]:
        pol.append({"kind": "pol", "att": g[0], "init": g[1], "maxb": g[2], "mult": g[3], "ncodes": g[4], "cap": g[5]})
    return thr, pol


def run(ctx):
    # ---------------- (a) backoff / pushback delays, from the C18 pipeline
    # (the graph dump below model-checks RetryGen19.cfg with its invariants I_DelayIndex / I_Tokens / I_Bound)
    ctx.neg("RetryMC", "RetryNeg3.cfg", expect="I_DelayIndex", workers=2)
    behs = _retry.generate(ctx, "RetryGen19.cfg", ctx.pick(1500, 10000), ctx.pick(0, 3000))
    # parser-valid huge multiplier (10 ms x 10^12, max 20 ms): the capped branch must apply from the second retry on
    behs += _retry.generate(ctx, "RetryGen19H.cfg", ctx.pick(150, None), 0,
                            rank=lambda b: len(b["scripts"]))
    # token ledger across RPCs: 2-4 RPCs one after the other on ONE channel with throttling configured, attempts failing /
    # succeeding per script, some RPCs exhausting maxAttempts; the ledger (one token per counted failure, tokenRatio 0.5 per
    # success) is carried across the RPCs and every retry / refusal is judged against it
    behs += _retry.generate(ctx, "RetryGenL.cfg", ctx.pick(700, 6000), 0,
                            keep=lambda b: any(o["op"] == "newrpc" for o in b["ops"]),
                            rank=lambda b: sum(o["op"] == "newrpc" for o in b["ops"]) + min(len(b["scripts"]), 6) / 8.0)
    tpath = _retry.execute(ctx, behs, "c19")
    for b in behs:
        ctx.count(b, nontrivial=_retry.nontrivial(b))
    ctx.sample(next((b for b in behs if len(b["scripts"]) >= 4), behs[0]))
    _retry.judge(ctx, "RetryTraceC19.cfg", tpath, behs, "e2e executions (delays, token ledger across RPCs)")

    # ---------------- (b) token bucket
    ctx.mc("RetryThrottleMC", "RetryThrottleMC.cfg", workers=2)
    ctx.mc("RetryThrottleMC", "RetryThrottleInd.cfg", workers=2)
    ctx.neg("RetryThrottleMC", "RetryThrottleNeg.cfg", expect="I_TokenRange", workers=2)
    binary = ctx.go_build(".", name="c19", only=r"zz_verif_c19_")
    maxes = ctx.pick([8, 16, 24, 36, 80], [8, 16, 24, 36, 40, 80, 800, 8000])
    ratios = ctx.pick([1, 4, 8, 12], [1, 4, 8, 12, 24, 100])
    cfgs = [{"max": m, "ratio": r} for m in maxes for r in ratios]
    cpath = os.path.join(ctx.run, "thr-cfgs.ndjson")
    ttr = os.path.join(ctx.run, "trace-thr.ndjson")
    write_ndjson(cpath, cfgs)
    n = ctx.pick(8, 9)
    ctx.driver(binary, "TestVerifC19Throttle", {"VERIF_BEHAVIOURS": cpath, "VERIF_OUT": ttr, "VERIF_N": n})
    ctx.count({"throttle_histories": len(cfgs) << n}, n=len(cfgs) << n)
    res = ctx.validate("RetryThrottleTrace", "RetryThrottleTrace.cfg", ttr)
    if not res["accepted"]:
        idx, seg = ctx.trace_segment(ttr, res["line"])
        ctx.violation("retryThrottler history %d: clause %s at trace line %d: %s" % (idx, res["clause"], res["line"], " ".join(seg[:12])),
                      {"clause": res["clause"], "segment": seg})

    # ---------------- (c) parseServiceConfig validation table
    thr, pol = table(ctx)
    for name, rows in (("mc", [dict(r, mc=1) for r in thr] + pol), ("nomc", [dict(r, mc=0) for r in thr])):
        rpath = os.path.join(ctx.run, "rows-%s.ndjson" % name)
        ptr = os.path.join(ctx.run, "trace-parse-%s.ndjson" % name)
        write_ndjson(rpath, rows)
        ctx.driver(binary, "TestVerifC19Parse", {"VERIF_BEHAVIOURS": rpath, "VERIF_OUT": ptr})
        for r in rows:
            ctx.count(r)
        res = ctx.validate("RetryThrottleTrace", "RetryThrottleTrace.cfg", ptr, count_resets=False)
        if not res["accepted"]:
            row = rows[res["line"] - 2] if 2 <= res["line"] < len(rows) + 2 else None
            what = "parseServiceConfig table row %s: clause %s" % (json.dumps(row), res["clause"])
            if res["clause"] == "I_ParseRejectsThrottling_noMethodConfig":
                ctx.finding(SIG_NOMC, what, {"row": row})
            else:
                ctx.violation(what, {"row": row, "clause": res["clause"]})
    ctx.cov["rule"] = ("(a) behaviours = edge cover of Retry.tla's state graph (backoff-focused configuration) + seeded simulation runs, "
                       "executed e2e; non-trivial = at least two attempts; (b) every success/failure history of length 8 (9 thorough) per "
                       "(maxTokens, tokenRatio) configuration on the real retryThrottler; (c) rows of the validation table")
    ctx.assumptions += ["dyadic token configurations (multiples of 1/8) so that float64 arithmetic is exact",
                        "backoff settings (10 ms, x2, max 50 ms) and (8 ms, x1.5, max 20 ms); pushback 0 / 7 ms"]
