"""C01 — outbound DATA never exceeds the peer's flow-control windows (spec Loopy)."""
from _loopy import run_loopy

META = {
    "engine": "Loopy",
    "level": "model_checking",
    "text": "Loopy.tla: Level I = loopyWriter.handle for every control item kind and processData / updateStreamAfterWrite; Level A = "
            "the peer's connection and per-stream window ledgers kept only from the initial windows, the WINDOW_UPDATE and SETTINGS "
            "the scripted peer sent, and the SETTINGS ACK and DATA frames decoded from the wire (a changed INITIAL_WINDOW_SIZE binds "
            "from its ACK). TLC checks exhaustively on scaled constants, client and server side, that no DATA frame exceeds the "
            "connection ledger, the stream ledger or the maximum frame size and no HEADERS/CONTINUATION fragment exceeds the frame "
            "size, and that the writer's quotas equal the ledgers (negative control: stream-quota clamp removed). Every transition "
            "of real-size state graphs (payloads 0..20000, increments 1..65535, initial windows 0..70000) and seeded random histories "
            "of hundreds of items are executed on a real loopyWriter whose output is decoded by an independent http2.Framer after "
            "every step; TLC validates every step against the ledger monitor. Clauses: C01_FrameSize, C01_HeaderFragSize, "
            "C01_ConnWindow, C01_StreamWindow.",
    "note": "Sequential drive of the writer's state machine in run()'s discipline; the concurrent controlBuffer path, GOAWAY/draining "
            "and HPACK table-size changes are not exercised.",
}


def run(ctx):
    run_loopy(ctx, "C01")
