"""Shared by C46, C47, C55, C20 (reference-oracle checks with already known deviations).

A monitor built on specs/KnownMarks.tla records either one STRONG clause (a violation of the property, which
overrides everything else) or, if nothing else is wrong, the list of WEAK clauses that fired, each naming one
exact known input class, as "NAME@line+NAME@line+".  `validate_known` routes weak clauses through ctx.finding
(KNOWN_FINDINGS.jsonl decides: listed -> KNOWN-FINDING, otherwise VIOLATION) and a strong one through
ctx.violation."""
import json
import os
import re

from vcheck import write_ndjson


def validate_known(ctx, module, cfg, rows, weak, what, name="pairs", timeout=1800, stack=None):
    """rows: recorded events (with reset lines), weak: {clause: (signature, text)}."""
    path = os.path.join(ctx.run, "val-%s.ndjson" % name)
    write_ndjson(path, rows)
    old = os.environ.get("JAVA_TOOL_OPTIONS")
    if stack:   # ctx.validate has no stack parameter; deep recursive operators (BigDec powers) need a larger thread stack
        os.environ["JAVA_TOOL_OPTIONS"] = ((old + " ") if old else "") + "-Xss" + stack
    try:
        res = ctx.validate(module, cfg, path, count_resets=False, timeout=timeout)
    finally:
        if stack:
            if old is None:
                os.environ.pop("JAVA_TOOL_OPTIONS", None)
            else:
                os.environ["JAVA_TOOL_OPTIONS"] = old
    ctx.cov["traces_validated_against_impl"] += sum(1 for r in rows if r.get("ev") != "reset")
    if res["accepted"]:
        return res
    parts = re.findall(r"([A-Za-z0-9_]+)@(\d+)\+", res["clause"])
    if parts and all(p[0] in weak for p in parts) and "".join("%s@%s+" % p for p in parts) == res["clause"]:
        for cl, line in parts:
            bad = rows[int(line) - 1]
            sig, text = weak[cl]
            ctx.finding(sig, "%s: %s; first failing record of this input class: %s" % (what, text, json.dumps(bad)[:500]),
                        {"clause": cl, "line": int(line), "record": bad})
    else:
        bad = rows[res["line"] - 1] if 0 < res["line"] <= len(rows) else None
        ctx.violation("%s: clause %s violated by record %s" % (what, res["clause"], json.dumps(bad)[:500]),
                      {"clause": res["clause"], "line": res["line"], "record": bad})
    return res


def account(ctx, rows, drop=("res",)):
    for r in rows:
        if r.get("ev") == "reset":
            continue
        key = {k: v for k, v in r.items() if k not in drop}
        ctx.count(json.dumps(key, sort_keys=True), nontrivial=True)
    step = max(1, len(rows) // 3)
    for r in rows[::step][:2]:
        if r.get("ev") != "reset":
            ctx.sample(r)
