"""C10 — a handler's status reaches the client unchanged."""
import json
import os

from vcheck import Inconclusive, parse_tla_state, read_ndjson, write_ndjson
from _reforacle import validate_known

META = {
    "engine": "WireStatus",
    "level": "model_checking",
    "text": "WireStatus.tla states the transfer rule (same code, message with invalid UTF-8 replaced by U+FFFD - the Sanitize "
            "reference of WireCodec.tla -, same details; nil <-> OK) and a model of the wire mechanism (grpc-status, percent-encoded "
            "grpc-message, grpc-status-details-bin carrying the serialized status proto). TLC enumerates codes {0,1,2,5,13,16,17,99,"
            "255,256,300,512,65536,2^31-1,2^31,2^32-1} x messages over the C08 alphabet plus newline and multi-byte / invalid UTF-8 strings x detail lists "
            "of size 0-2 x {unary, unary with header, stream trailers-only, stream with header, stream with one message} (one MC "
            "state per case), checks that the mechanism reproduces the statement exactly outside two known input classes (negative "
            "control: a client that does not percent-decode), the enumerated cases are executed end to end (real grpc.NewClient <-> "
            "real grpc.NewServer over bufconn, hand-built service with a unary and a streaming method plus the unknown-service "
            "handler, raw codec), and TLC judges every recorded (handler status, client status.FromError) row.",
    "note": "Details are compared as serialized Any lists (type URL, value bytes). Header-list-size overflow of a huge status is not "
            "covered. Decides exactly the enumerated cases.",
    "technique": "TLA+ reference specification model-checked by TLC on a bounded domain; TLC-enumerated cases executed end to end on "
                 "the real client/server; outcomes validated by TLC",
}

WEAK = {
    "KNOWN_DetailsLostInvalidUTF8": (
        "C10:details-dropped:invalid-utf8-message-with-details",
        "a non-OK status with details whose message is not valid UTF-8 arrives without its details (writeStatus cannot "
        "proto.Marshal the status proto, logs and omits grpc-status-details-bin)"),
    "KNOWN_CodeAbove2p31": (
        "C10:code>=2^31:malformed-grpc-status",
        "a status code >= 2^31 is written as an unsigned decimal by the server and rejected by the client's "
        "strconv.ParseInt(.., 10, 32): the client sees UNKNOWN 'transport: malformed grpc-status' instead of the code, "
        "message and details"),
}


def table(ctx, cfg, base):
    g = ctx.dump_graph("WireStatusMC", cfg, workers=4)
    cases = []
    for nid in sorted(g.nodes, key=lambda x: g.nodes[x]):
        st = parse_tla_state(g.nodes[nid], only={"mode", "code", "msg", "det"})
        cases.append({"mode": st["mode"], "code": "".join(str(d) for d in st["code"]), "msg": st["msg"], "det": st["det"]})
    if not cases:
        raise Inconclusive("TLC enumerated no case for " + cfg)
    ctx.rng.shuffle(cases)   # all cases share one client and one server: the order is seeded
    for i, c in enumerate(cases):
        c["id"] = base + i
    return cases


def run(ctx):
    cases = table(ctx, "WireStatusMC.cfg", 0)   # this TLC run is also the exhaustive check of the invariants
    ctx.neg("WireStatusMC", "WireStatusNeg.cfg", expect="I_WireTransfers", workers=2)
    if not ctx.quick():
        seen = {json.dumps({k: c[k] for k in ("mode", "code", "msg", "det")}, sort_keys=True) for c in cases}
        for cfg in ("WireStatusMCT.cfg", "WireStatusMCT2.cfg"):
            for c in table(ctx, cfg, 0):
                k = json.dumps({k: c[k] for k in ("mode", "code", "msg", "det")}, sort_keys=True)
                if k not in seen:
                    seen.add(k)
                    c["id"] = len(cases)
                    cases.append(c)
    ctx.cov["behaviours_generated"] += len(cases)
    binary = ctx.go_build("internal/zzverif/c10")
    bpath = os.path.join(ctx.run, "c10-cases.ndjson")
    tpath = os.path.join(ctx.run, "c10-trace.ndjson")
    write_ndjson(bpath, cases)
    ctx.driver(binary, "TestVerifC10Table", {"VERIF_BEHAVIOURS": bpath, "VERIF_OUT": tpath}, timeout=900)
    rows = read_ndjson(tpath)
    done = {r["id"]: r for r in rows if r.get("ev") == "status"}
    if len(done) != len(cases):
        raise Inconclusive("driver executed %d of %d cases" % (len(done), len(cases)))
    for c in cases:
        r = done[c["id"]]
        if r["code"] != c["code"] or r["msg"] != c["msg"] or r["det"] != c["det"] or r["mode"] != c["mode"]:
            raise Inconclusive("driver executed something else than case %s: %s" % (c, r))
        ctx.count([c["mode"], c["code"], c["msg"], c["det"]], nontrivial=c["code"] != "0")
    for r in list(done.values())[:: max(1, len(done) // 4)][:4]:
        ctx.sample(r)
    # codes are decimal digit sequences in the spec (TLC integers are 32-bit)
    for r in rows:
        if r.get("ev") == "status":
            r["code"] = [int(d) for d in r["code"]]
            r["ocode"] = [int(d) for d in r["ocode"]]
    validate_known(ctx, "WireStatusTrace", "WireStatusTrace.cfg", rows, WEAK, "handler status -> client status", name="c10")
    ctx.cov["rule"] = ("one executed RPC per TLC-enumerated case (code x message x details x response shape); each (handler status, "
                       "client status) row judged by TLC with the statement's transfer rule; distinct = distinct case, non-trivial = "
                       "non-OK code")
    ctx.assumptions += ["TLC's evaluation of the StrOps / WireCodec operators (UTF-8 automaton, Sanitize) is trusted as the oracle",
                        "a detail is an opaque google.protobuf.Any (type URL, value bytes); unpacking details is not part of the property"]
