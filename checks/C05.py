"""C05 — received stream bytes are delivered in order, once, then the end/error (spec RecvBuffer)."""
import json
import os
import re

from vcheck import Inconclusive, parse_tla_state, write_ndjson

META = {
    "engine": "RecvBuffer",
    "level": "model_checking",
    "text": "RecvBuffer.tla models recvBuffer.put (channel fast path, backlog, compactBacklogLocked with its suffix ledger), load and "
            "recvBufferReader.Read / ReadMessageHeader (splitting of the last buffer, sticky error). TLC checks for all bounded "
            "interleavings of puts (small and large frames, EOF or an error at any position, puts after it) with reads of several "
            "sizes, compaction on and off: the ledger describes the backlog's tail, everything in flight continues exactly where the "
            "reader stopped and ends where the producer stopped (no gap, overlap, reorder), the error marker is last and is returned "
            "only after all earlier bytes, and nothing owed is ever stuck (negative control: merged length off by one). Every "
            "transition of a bounded state graph is executed on the real recvBuffer + recvBufferReader with compactionThreshold set "
            "to the model's value, and long seeded random histories (10^4 mostly small frames) run with the real threshold; payload "
            "bytes are a running counter and TLC validates every returned chunk with a monitor of the byte stream (gap, duplicate, "
            "reorder, error early / lost / wrong / not sticky, data after error, lost data).",
    "note": "Replay and random histories are driven by one goroutine (reads only when they cannot block); the put-versus-load race is "
            "exercised by a free-running two-goroutine stress run judged by the same monitor (schedules are whatever the Go "
            "scheduler produces; they are not enumerated).",
}


SIG_2ERR = "C05:panic:error-put-after-error"


def step_of(state_text, label):
    m = re.match(r'(\w+)\((.*)\)', label)
    if not m:
        raise Inconclusive("unknown action label " + label)
    name, arg = m.group(1), int(m.group(2).strip())
    c = parse_tla_state(state_text, only={"compaction"})["compaction"]
    if name == "PutDataT":
        return {"a": "put", "n": arg, "c": c}
    if name == "PutErrT":
        return {"a": "puterr", "k": "eof" if arg == -1 else "err", "c": c}
    if name == "ReadT":
        return {"a": "read", "n": arg, "c": c}
    raise Inconclusive("unknown action label " + label)


def cfg_consts(ctx, cfg):
    txt = open(os.path.join(ctx.specdir, cfg)).read()
    return {k: int(v) for k, v in re.findall(r"^(\w+) = (\d+)$", txt, re.M)}


def judge(ctx, res, tpath, what):
    if res["accepted"]:
        return
    idx, seg = ctx.trace_segment(tpath, res["line"])
    # keep the artefact small: the history up to the failing line
    ctx.violation("%s: clause %s at trace line %d (history %d)" % (what, res["clause"], res["line"], idx),
                  {"clause": res["clause"], "line": res["line"], "segment": [s[:400] for s in seg[:400]]})


def summary(out):
    m = re.search(r"VERIF_SUMMARY (\{.*\})", out)
    return json.loads(m.group(1)) if m else {}


def run(ctx):
    # quick: one TLC run is both the exhaustive check (RecvBufferGen.cfg lists the invariants) and the behaviour source
    if not ctx.quick():
        ctx.mc("RecvBufferMC", "RecvBufferMC.cfg", workers=8)
        ctx.mc("RecvBufferMC", "RecvBufferMCThorough.cfg", workers=8)
    ctx.neg("RecvBufferMC", "RecvBufferNeg.cfg", expect="I_Contig", workers=2)
    binary = ctx.go_build("internal/transport", name="c05", only=r"zz_verif_c05_")

    gen = ctx.pick("RecvBufferGen.cfg", "RecvBufferGenThorough.cfg")
    c = cfg_consts(ctx, gen)
    g = ctx.dump_graph("RecvBufferMC", gen, workers=8)
    raw = ctx.edge_cover(g, step_of, limit=ctx.pick(1500, 8000))
    behs = []
    for b in raw:
        init = {"a": "init", "compaction": bool(b[0]["c"]), "thr": c["Thr"], "client": ctx.rng.random() < 0.5}
        steps = []
        for st in b:
            st = {k: v for k, v in st.items() if k != "c"}
            if st["a"] == "read":
                st["hdr"] = ctx.rng.random() < 0.4
            steps.append(st)
        behs.append([init] + steps)
        ctx.count([init["compaction"]] + [[s["a"], s.get("n", s.get("k"))] for s in steps], nontrivial=len(steps) >= 2)
    ctx.sample(behs[len(behs) // 2])
    # histories that put a second EOF/error after the first one are replayed separately: on the current code the
    # second put panics (KNOWN_FINDINGS), and the monitor records only the first violated clause of a trace file
    twoerr = [b for b in behs if sum(1 for st in b if st["a"] == "puterr") >= 2]
    behs = [b for b in behs if sum(1 for st in b if st["a"] == "puterr") < 2]
    bpath = os.path.join(ctx.run, "beh.ndjson")
    write_ndjson(bpath, behs)
    t1 = os.path.join(ctx.run, "trace-replay.ndjson")
    out = ctx.driver(binary, "TestVerifC05Replay", {"VERIF_BEHAVIOURS": bpath, "VERIF_OUT": t1})
    ctx.cov["compactions_replay"] = summary(out).get("compactions")
    no_compaction = [] if summary(out).get("compactions") else ["replayed behaviours"]
    if summary(out).get("recvMsgSize") != c["O"]:
        raise Inconclusive("recvMsgSize of this platform is %s, the generation config assumes O = %d" % (summary(out).get("recvMsgSize"), c["O"]))

    if twoerr:
        bpath2 = os.path.join(ctx.run, "beh-twoerr.ndjson")
        write_ndjson(bpath2, twoerr)
        t1b = os.path.join(ctx.run, "trace-replay-twoerr.ndjson")
        ctx.driver(binary, "TestVerifC05Replay", {"VERIF_BEHAVIOURS": bpath2, "VERIF_OUT": t1b})
        res = ctx.validate("RecvBufferTrace", "RecvBufferTrace.cfg", t1b)
        if not res["accepted"] and res["clause"] == "K_PanicSecondErrorPut":
            idx, seg = ctx.trace_segment(t1b, res["line"])
            ctx.finding(SIG_2ERR, "recvBuffer.put panics (nil mem.Buffer) when an EOF/error is put after an earlier one: trace line %d" % res["line"],
                        {"clause": res["clause"], "line": res["line"], "segment": [x[:300] for x in seg[:100]]})
        else:
            judge(ctx, res, t1b, "replay of TLC behaviours with two error puts")

    # long random histories, small threshold (compaction every few dozen frames)
    t2 = os.path.join(ctx.run, "trace-random-small.ndjson")
    n, frames = ctx.pick(3, 15), ctx.pick(2000, 5000)
    out = ctx.driver(binary, "TestVerifC05Random", {"VERIF_OUT": t2, "VERIF_N": n, "VERIF_FRAMES": frames, "VERIF_THR": 1500})
    ctx.cov["compactions_random_small_thr"] = summary(out).get("compactions")
    ctx.count({"random_small_thr": n, "frames": frames, "seed": ctx.seed}, n=n)

    # long random histories with the REAL threshold (10^4 frames each), Level A only
    t3 = os.path.join(ctx.run, "trace-random-real.ndjson")
    n = ctx.pick(2, 8)
    out = ctx.driver(binary, "TestVerifC05Random", {"VERIF_OUT": t3, "VERIF_N": n, "VERIF_FRAMES": 10000, "VERIF_THR": 0})
    ctx.cov["compactions_random_real_thr"] = summary(out).get("compactions")
    ctx.log("compactions observed: replay %s, random small threshold %s, random real threshold %s" % (
        ctx.cov["compactions_replay"], ctx.cov["compactions_random_small_thr"], ctx.cov["compactions_random_real_thr"]))
    if not summary(out).get("compactions"):
        no_compaction.append("random histories with the real threshold")
    ctx.count({"random_real_thr": n, "frames": 10000, "seed": ctx.seed}, n=n)
    # free-running producer vs reader (put vs load race), judged by the same monitor
    t4 = os.path.join(ctx.run, "trace-stress.ndjson")
    n = ctx.pick(4, 12)
    ctx.driver(binary, "TestVerifC05Stress", {"VERIF_OUT": t4, "VERIF_N": n, "VERIF_FRAMES": ctx.pick(5000, 10000)})
    ctx.count({"stress_runs": n, "seed": ctx.seed}, n=n)
    t_all = os.path.join(ctx.run, "trace-all.ndjson")
    with open(t_all, "w") as out:
        for p in (t1, t2, t3, t4):
            out.write(open(p).read())
    judge(ctx, ctx.validate("RecvBufferTrace", "RecvBufferTrace.cfg", t_all, heap="8g"), t_all,
          "replay of TLC behaviours + random histories (threshold 1500 and real) + producer/reader stress, seed %d" % ctx.seed)
    if no_compaction and not ctx.violations:
        raise Inconclusive("no compaction was observed in: " + ", ".join(no_compaction))
    ctx.cov["rule"] = ("behaviours = edge cover of the TLC state graph of RecvBufferMC (both compaction settings), each executed on the "
                       "real recvBuffer/recvBufferReader (Read or ReadMessageHeader, server or client flavour chosen by the seed) and "
                       "drained at the end; non-trivial = >= 2 steps; distinct by step sequence; plus seeded random histories of "
                       "2000-10000 frames with a small and with the real compaction threshold")
    ctx.assumptions += [
        "DATA payloads put into the buffer are non-empty (handleData only writes when dataLen > 0)",
        "single consumer (the stream's reader), as in the transport",
    ]
