"""C22 — deadlines and cancellation propagate to both ends (spec RpcLifecycle)."""
import os

from vcheck import parse_tla_state, write_ndjson

META = {
    "engine": "RpcLifecycle",
    "level": "model_checking",
    "text": "RpcLifecycle.tla models one RPC walking through its client-side phases (name resolution, picker, stream quota, HEADERS "
            "sent, write quota, receive - at a message boundary, in the middle of a message, or in the retry backoff after a trailers-only UNAVAILABLE attempt - / server handler; unary, bidi and client streaming; grpc.EnableTracing on/off at the write-quota point) that blocks for ever at a chosen blocking point, optionally after a delay "
            "in an earlier phase, with a deadline and/or a cancellation instant; TLC checks for every scenario that the call returns "
            "exactly at the event instant with DEADLINE_EXCEEDED / CANCELLED, that the timeout seen by the server exists iff the "
            "client has a deadline and lies in [remaining at send, remaining + one grpc-timeout unit), and that the handler's context "
            "is done after (and not before) the event (negative controls: the picker wait ignores the context; the timeout is rounded "
            "down). Every scenario is executed under testing/synctest virtual time on the real grpc.ClientConn against a manual "
            "resolver that never reports, a dialer that never completes, a raw HTTP/2 server (MAX_CONCURRENT_STREAMS 0, "
            "INITIAL_WINDOW_SIZE 0, silent) or a real grpc.Server whose handler waits for its context, and TLC validates the recorded "
            "instants, codes and timeouts (exact nanoseconds) against the monitor.",
    "note": "All instants are below 2 virtual seconds so that nanoseconds fit TLC integers; the deadline and the cancellation never "
            "coincide with each other or with the release instant of the delayed phase.",
    "technique": "synctest virtual time, raw HTTP/2 peer",
}

SIG_Q = "grpc-timeout:computed-before-stream-quota-wait:server-deadline-later-than-client"
SCEN = {"point", "kind", "delay", "hasDl", "dl", "hasCancel", "cancelAt", "tracing"}


def run(ctx):
    cfg = ctx.pick("RpcLifecycleMC.cfg", "RpcLifecycleMC2.cfg")
    ctx.neg("RpcLifecycle", "RpcLifecycleNeg.cfg", expect="I_Terminates", workers=2)
    ctx.neg("RpcLifecycle", "RpcLifecycleNeg2.cfg", expect="I_ServerDeadline", workers=2)
    # the literal upper bound fails in the model exactly in the known class Q (documented finding)
    ctx.neg("RpcLifecycle", "RpcLifecycleLit.cfg", expect="I_ServerDeadlineLit", workers=2)
    binary = ctx.go_build("internal/zzverif/c22")
    g = ctx.dump_graph("RpcLifecycle", cfg, workers=4)      # also the exhaustive check of the invariants
    scens = []
    for i in g.init:
        st = parse_tla_state(g.nodes[i], only=SCEN)
        st["tRel"] = 300000000
        st["end"] = 1900000000
        scens.append(st)
    scens.sort(key=lambda s: repr(sorted(s.items())))
    bpath = os.path.join(ctx.run, "scen.ndjson")
    tpath = os.path.join(ctx.run, "trace.ndjson")
    write_ndjson(bpath, scens)
    ctx.driver(binary, "TestVerifC22Scenarios", {"VERIF_BEHAVIOURS": bpath, "VERIF_OUT": tpath})
    for s in scens:
        ctx.count(s, nontrivial=True)
    ctx.sample(scens[len(scens) // 2])
    res = ctx.validate("RpcLifecycleTrace", "RpcLifecycleTrace.cfg", tpath)
    if not res["accepted"]:
        idx, seg = ctx.trace_segment(tpath, res["line"])
        ctx.violation("scenario %d: clause %s at trace line %d: %s" % (idx, res["clause"], res["line"], " ".join(seg)[:600]),
                      {"clause": res["clause"], "segment": seg})
    if res["drift"].startswith("KNOWN_Q"):
        idx, seg = ctx.trace_segment(tpath, res["drift_line"])
        ctx.finding(SIG_Q, "the grpc-timeout sent to the server is computed before the wait for stream quota, so the server-side deadline "
                    "is later than the client's by the time spent waiting (%d scenarios): e.g. %s" %
                    (res["drift_count"], " ".join(seg)[:500]), {"segment": seg})
    ctx.log("%d scenarios" % len(scens))
    ctx.cov["rule"] = ("scenarios = all initial states of RpcLifecycle.tla (blocking point x delay x unary/streaming x deadline x "
                       "cancellation), each executed once in virtual time; distinct by scenario parameters")
    ctx.assumptions += ["virtual time (testing/synctest); in-memory connections (bufconn) deliver in zero virtual time"]
