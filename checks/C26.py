"""C26 — requests are dispatched only to the registered method (spec Dispatch)."""
import os

from vcheck import Inconclusive, parse_tla_state, write_ndjson, read_ndjson

META = {
    "engine": "Dispatch",
    "level": "model_checking",
    "text": "Dispatch.tla is a reference of Server.handleStream's path handling over byte strings (well-formed <=> leading '/' and a second "
            "'/'; service = up to the LAST '/', method = after it; registered => that handler, otherwise the unknown-service handler if "
            "installed else UNIMPLEMENTED; malformed => UNIMPLEMENTED and no handler).  TLC checks the property statement (written without "
            "the parsing algorithm: 'can be written /s/m for some strings') against the reference for every byte string of length <= 4 "
            "(thorough 5) over {'/','a','b','c','.',0xC3} and every string within 1 (thorough 2) single-byte edits of '/a/b' and of the "
            "nested '/a/b/c', for the registries {a.b}, {a/b.c}, {a.b, a/b.c} with and without an unknown-service handler (negative "
            "control: split at the first '/').  Every enumerated path plus seeded random longer paths is sent verbatim as :path by a raw "
            "HTTP/2 client to a real grpc.Server with those registrations (testing/synctest + bufconn); the handlers that ran and the "
            "grpc-status are recorded and validated by TLC against the reference for every (registry, path) pair.",
    "note": "Handlers are a unary method (a.b) and a bidi-streaming method (a/b.c) that only record their identity; the server uses a "
            "pass-through codec.",
}

ALPHABET = [47, 97, 98, 99, 46, 195]
CONFIGS = [([1], False), ([1], True), ([2], False), ([2], True), ([1, 2], False), ([1, 2], True)]


def run(ctx):
    binary = ctx.go_build("internal/zzverif/c26")
    g = ctx.dump_graph("DispatchMC", ctx.pick("DispatchMC.cfg", "DispatchMCT.cfg"))
    ctx.neg("DispatchMC", "DispatchNeg.cfg", expect="I_Dispatch")
    paths = set()
    for label in g.nodes.values():
        paths.add(tuple(parse_tla_state(label, only={"p"})["p"]))
    if len(paths) < 1000:
        raise Inconclusive("only %d paths enumerated" % len(paths))
    enumerated = len(paths)
    # seeded random longer paths, biased towards slashes and the registered names
    nrand = ctx.pick(300, 5000)
    frag = [[47], [97], [98], [99], [46], [195], [47, 97], [47, 98], [47, 99], [97, 47, 98], [47, 47], [195, 169], [65], [37, 50, 70]]
    for _ in range(nrand):
        p = []
        for _ in range(ctx.rng.randint(1, 7)):
            p += ctx.rng.choice(frag)
        paths.add(tuple(p))
    paths = sorted(paths)
    ctx.cov["behaviours_generated"] += len(paths)
    bpath = os.path.join(ctx.run, "beh.ndjson")
    tpath = os.path.join(ctx.run, "trace.ndjson")
    write_ndjson(bpath, [{"reg": reg, "unk": unk, "paths": [list(p) for p in paths]} for reg, unk in CONFIGS])
    ctx.driver(binary, "TestVerifC26Dispatch", {"VERIF_BEHAVIOURS": bpath, "VERIF_OUT": tpath}, timeout=1200)
    for p in paths:
        for reg, unk in CONFIGS:
            ctx.count([reg, unk, p], nontrivial=len(p) >= 1)
    ctx.sample({"reg": [1, 2], "unk": False, "path": "/a/b/c"})
    res = ctx.validate("DispatchTrace", "DispatchTrace.cfg", tpath, count_resets=False)
    ctx.cov["traces_validated_against_impl"] += len(paths) * len(CONFIGS)
    if not res["accepted"]:
        ev = read_ndjson(tpath)[res["line"] - 1]
        ctx.violation("dispatch: clause %s at trace line %d: registry %s unknown-handler=%s :path=%r -> handlers %s, grpc-status %s" % (
            res["clause"], res["line"], ev.get("reg"), ev.get("unk"), bytes(ev.get("path", [])), ev.get("handlers"), ev.get("status")),
            {"clause": res["clause"], "event": ev})
    ctx.cov["rule"] = ("cases = (registry, unknown-handler?, :path) triples; paths = the %d byte strings enumerated by TLC (all of length "
                       "<= MaxLen over 6 symbols, all within MaxEdits edits of the registered full names) + %d seeded random paths; "
                       "6 server configurations; each sent verbatim by a raw HTTP/2 client" % (enumerated, nrand))
