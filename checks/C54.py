"""C54 — health Watch streams converge to the latest status (spec Health / HealthTrace)."""
import json
import os
import re

from vcheck import Inconclusive, parse_tla_state, write_ndjson

META = {
    "engine": "Health",
    "level": "model_checking",
    "text": "Health.tla models health.Server: the status table, the shutdown flag and per Watch stream the one-slot latest-value "
            "channel, the watcher loop (take, skip if equal to the last sent status, else Send) and a slow sender; TLC checks "
            "first-message-is-current, no-repeat, only-statuses-the-service-had, convergence at quiescence and NOT_SERVING between "
            "Shutdown and Resume for all interleavings of <= 5 mutator calls with 2 watchers (three negative controls). Every "
            "transition of two bounded scopes is executed on the real health.Server inside testing/synctest with fake Watch streams "
            "gated in Context() (before the channel receive) and in Send() (slow sender); seeded random histories run with "
            "free-running slow watchers racing one mutator; TLC validates every recorded message sequence, Check result and "
            "quiescence point against the monitor HealthTrace.tla.",
    "note": "'Current status' of the first message is judged when the message is produced (a change that lands between Watch "
            "registering and the first Send legitimately replaces the initial value). Mutators are issued by one goroutine; "
            "watchers are concurrent with it.",
    "technique": "TLA+ spec + TLC exhaustive check; TLC state-graph edge cover replayed on the real server (gated fake streams, synctest); TLC trace validation",
}


def step_of(state_text, label):
    m = re.match(r'(\w+?)T(?:\((.*)\))?$', label)
    if not m:
        raise Inconclusive("unknown action label " + label)
    name, args = m.group(1), (m.group(2) or "")
    args = [a.strip().strip('"') for a in args.split(",")] if args else []
    if name == "Set":
        return {"a": "set", "svc": args[0], "v": args[1]}
    if name in ("Shutdown", "Resume"):
        return {"a": name.lower()}
    msgs = parse_tla_state(state_text, only={"msgs"})["msgs"]
    w = int(args[0])
    if name == "WatchStart":
        return {"a": "watch", "w": w, "svc": args[1], "exp": msgs[w - 1]}
    if name == "Take":
        return {"a": "take", "w": w, "exp": msgs[w - 1]}
    if name == "SendDone":
        return {"a": "done", "w": w, "exp": msgs[w - 1]}
    raise Inconclusive("unknown action label " + label)


def summary(out):
    m = re.search(r"VERIF_SUMMARY (\{.*\})", out)
    if not m:
        raise Inconclusive("driver printed no summary:\n" + out[-2000:])
    s = json.loads(m.group(1))
    if s.get("panics"):
        raise Inconclusive("driver recovered %d panics" % s["panics"])
    return s


def judge(ctx, res, tpath, what):
    if res["accepted"]:
        return
    idx, seg = ctx.trace_segment(tpath, res["line"])
    ctx.violation("%s: clause %s violated at trace line %d (history %d)" % (what, res["clause"], res["line"], idx),
                  {"clause": res["clause"], "segment": seg[:300]})


def run(ctx):
    ctx.mc("HealthMC", "HealthMC.cfg", workers=8)
    ctx.neg("HealthMC", "HealthNeg1.cfg", expect="I_NoRepeat", workers=2)
    ctx.neg("HealthMC", "HealthNeg2.cfg", expect="I_Converges", workers=2)
    ctx.neg("HealthMC", "HealthNeg3.cfg", expect="I_ShutdownNotServing", workers=2)
    binary = ctx.go_build("internal/zzverif/c54")

    infeasible = 0
    for cfg, limit in (("HealthGen.cfg", ctx.pick(2500, None)), ("HealthGen2.cfg", ctx.pick(2000, 8000))):
        g = ctx.dump_graph("HealthMC", cfg)
        behs = ctx.edge_cover(g, step_of, limit=limit)
        bpath = os.path.join(ctx.run, "beh-%s.ndjson" % cfg)
        tpath = os.path.join(ctx.run, "trace-%s.ndjson" % cfg)
        write_ndjson(bpath, behs)
        s = summary(ctx.driver(binary, "TestVerifC54Replay", {"VERIF_BEHAVIOURS": bpath, "VERIF_OUT": tpath}))
        infeasible += s["infeasible"]
        for b in behs:
            ctx.count([(x["a"], x.get("w"), x.get("svc"), x.get("v")) for x in b], nontrivial=len(b) >= 3)
        ctx.sample({"scope": cfg, "history": [(x["a"], x.get("w", x.get("v"))) for x in behs[len(behs) // 2]]})
        judge(ctx, ctx.validate("HealthTrace", "HealthTrace.cfg", tpath), tpath, "gated replay " + cfg)
    if infeasible:
        print("DRIFT property=C54 %d replay steps were not executable at the gates" % infeasible)
        ctx.cov["drift"] += infeasible

    tpath = os.path.join(ctx.run, "trace-random.ndjson")
    n = ctx.pick(1000, 10000)
    s = summary(ctx.driver(binary, "TestVerifC54Random", {"VERIF_OUT": tpath, "VERIF_N": n}, timeout=1200))
    ctx.count({"random_histories": n, "seed": ctx.seed}, n=n)
    judge(ctx, ctx.validate("HealthTrace", "HealthTrace.cfg", tpath), tpath, "random histories seed %d" % ctx.seed)
    ctx.cov["rule"] = ("behaviours = edge cover of the TLC state graph of Health.tla (BFS prefix + one transition; 1 service x 3 "
                       "mutator calls and 2 services x 2 calls, 2 watchers), each step forced on the real health.Server through "
                       "gated fake streams; non-trivial = >= 3 steps, distinct by step sequence; plus seeded random histories of "
                       "3-16 mutator operations with up to 4 free-running (slow) watchers")
    ctx.assumptions += ["stream.Context() is called once per watcher loop iteration before the select (used as the gate before the take)",
                        "one mutator goroutine: SetServingStatus/Shutdown/Resume/Check are totally ordered; watchers race with it"]
