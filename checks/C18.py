"""C18 — retries are bounded, policy-driven and replay the exact request (spec Retry)."""
import _retry

META = {
    "engine": "Retry",
    "level": "model_checking",
    "text": "Retry.tla transcribes clientStream.withRetry / retryLocked / csAttempt.shouldRetry / bufferForRetryLocked / "
            "commitAttemptLocked for one RPC (application operations NewStream, SendMsg, CloseSend, Header, RecvMsg; one server "
            "script per attempt: OK, trailers-only(code, pushback variant), headers-then-fail, message-then-fail, RST REFUSED_STREAM, "
            "GOAWAY below the stream id; answered at stream open or at END_STREAM; policy = codes, maxAttempts capped by the channel "
            "limit, replay buffer limit, throttling). TLC checks I_Bound, I_WhenRetry/I_Transparent/I_Commit (recorded when an attempt "
            "is created) and I_Replay for all programs and scripts in the bounded scope (negative controls: retry after response "
            "headers; off-by-one attempt bound). An edge cover of the state graph plus random behaviours are executed end to end in a "
            "testing/synctest bubble (real grpc.ClientConn with the service config against a raw HTTP/2 server logging per stream the "
            "decoded messages, END_STREAM, grpc-previous-rpc-attempts and virtual arrival instants); TLC validates every recorded "
            "operation / attempt / result against the specification.",
    "note": "Concurrent programs (specs RetryGenP.cfg): SendMsg of a second goroutine is parked between its transport write and "
            "re-taking cs.mu; the receiver's Header/RecvMsg replaces the attempt meanwhile; I_Replay is judged on what the final "
            "attempt receives. Otherwise sequential driver: the system is quiescent between two application operations and the server answers one virtual "
            "millisecond after its trigger, which makes the number of attempts per operation deterministic. Fewer attempts than the "
            "model (a retry not taken) is drift, not a violation (the property is a safety property). The never-sent (admission "
            "failure) transparent retry path is not driven.",
}


def run(ctx):
    ctx.mc("RetryMC", ctx.pick("RetryMCq.cfg", "RetryMC.cfg"), workers=ctx.pick(4, 8))
    ctx.neg("RetryMC", "RetryNeg1.cfg", expect="I_NoViol", workers=2)
    ctx.neg("RetryMC", "RetryNeg2.cfg", expect="I_Bound", workers=2)
    behs = _retry.generate(ctx, ctx.pick("RetryGen.cfg", "RetryGenT.cfg"), ctx.pick(1500, 12000), ctx.pick(300, 3000))
    # concurrent client programs: a sender goroutine whose SendMsg is parked after its transport write (stats.Handler
    # gate) while the receiver goroutine sees the failure and replaces the attempt; resumed alone or while the receiver
    # is blocked on the new attempt
    behs += _retry.generate(ctx, "RetryGenP.cfg", ctx.pick(400, 4000), 0,
                            keep=lambda b: any(o["op"] == "park" for o in b["ops"]),
                            rank=lambda b: 2 * any(o["op"] == "unpark" and o["inline"] for o in b["ops"]) + min(len(b["scripts"]), 3) / 4.0)
    # "retried only if throttling allows it" across RPCs: 2-4 RPCs one after the other on ONE channel with throttling
    # configured (some exhausting maxAttempts); the token ledger is carried across the RPCs and every attempt the server
    # sees is judged against it (I_WhenRetry_throttled)
    behs += _retry.generate(ctx, "RetryGenL.cfg", ctx.pick(500, 6000), 0,
                            keep=lambda b: any(o["op"] == "newrpc" for o in b["ops"]),
                            rank=lambda b: sum(o["op"] == "newrpc" for o in b["ops"]) + min(len(b["scripts"]), 6) / 8.0)
    tpath = _retry.execute(ctx, behs, "c18")
    for b in behs:
        ctx.count(b, nontrivial=_retry.nontrivial(b))
    ctx.sample(next((b for b in behs if len(b["scripts"]) >= 3), behs[0]))
    _retry.judge(ctx, "RetryTrace.cfg", tpath, behs, "e2e replay of Retry.tla behaviours")
    ctx.cov["rule"] = ("behaviours = edge cover of the TLC state graph of Retry.tla (BFS prefix + one transition; configuration, "
                       "application operations, one server script per attempt) plus seeded TLC simulation runs over the larger "
                       "configuration space, each executed on a fresh real ClientConn inside a synctest bubble; non-trivial = at "
                       "least two attempts; distinct by (configuration, operations, scripts)")
    ctx.assumptions += ["server answers 1 virtual ms after its trigger; 10 virtual ms of settling between application operations",
                        "messages of 10 and 12 bytes; retry buffer limits 10 / 20 / 1000 bytes"]
