"""C36 — Weighted round robin picks in proportion to weights."""
import json
import os

from vcheck import read_ndjson

META = {
    "engine": "WrrStride",
    "level": "model_checking",
    "text": "WrrStride.tla is a declarative reference of the static-stride scheduler (sequence number s selects backend s mod n in "
            "generation s div n and accepts it iff (w*gen + idx*floor(M/2)) mod M >= M - w), of the scaling of endpoint weights to 0..M "
            "(largest -> M, others in proportion, endpoints without a weight -> mean, round robin when < 2 usable or all equal; both "
            "neighbours accepted on an exact rounding tie) and of the endpoint weight as a function of load reports and the clock, "
            "parameterised by the modulus M = B*B-1.  TLC checks with M = 15 for every weight vector of <= 3 endpoints that every pick "
            "ends within n sequence numbers and that over M*n consecutive numbers backend i is accepted exactly scaled-weight_i times "
            "(near and far starting points; negative control: threshold off by one), and the split 32-bit arithmetic against the direct "
            "one.  The real picker.newScheduler / nextIndex (M = 65535) is driven through the picker's own counter: single picks from "
            "6 starting points and full windows of 65535*n numbers per weight vector (edge, tie, extreme-ratio 1:10^6, missing-weight "
            "and random vectors); the real endpointWeight is driven through OnLoadReport / weight under the package's fake clock with "
            "dyadic inputs; TLC validates all recorded outputs.",
    "note": "Window histograms (65535*n picks) are counted by the driver and asserted by TLC; windows that straddle the wrap of the "
            "32-bit sequence counter are excluded (unreachable, DESIGN 7); at time differences exactly equal to the blackout / "
            "expiration period either outcome is accepted, and after an expiry that no weight query observed the blackout may or "
            "may not be applied again.",
    "technique": "TLA+ reference specification model-checked by TLC with a small modulus; real outputs validated by TLC with the "
                 "real modulus (split arithmetic)",
}


def run(ctx):
    ctx.mc("WrrStrideMC", ctx.pick("WrrStrideMC.cfg", "WrrStrideMCBig.cfg"), workers=8)
    ctx.neg("WrrStrideMC", "WrrStrideNeg.cfg", expect="I_Raw", workers=2)
    binary = ctx.go_build("balancer/weightedroundrobin", name="c36", only=r"zz_verif_c36_")
    t1 = os.path.join(ctx.run, "sched.ndjson")
    t2 = os.path.join(ctx.run, "weight.ndjson")
    ctx.driver(binary, "TestVerifC36Sched", {"VERIF_OUT": t1, "VERIF_N": ctx.pick(150, 2500), "VERIF_WINDOWS": ctx.pick(2, 4)}, timeout=900)
    ctx.driver(binary, "TestVerifC36Weight", {"VERIF_OUT": t2, "VERIF_N": ctx.pick(150, 3000)})
    t3 = os.path.join(ctx.run, "all.ndjson")
    with open(t3, "w") as f:
        f.write(open(t1).read())
        f.write(open(t2).read())
    rows = read_ndjson(t3)
    res = ctx.validate("WrrStrideTrace", "WrrStrideTrace.cfg", t3, count_resets=False, timeout=2400)
    if not res["accepted"]:
        bad = rows[res["line"] - 1]
        if bad["ev"] in ("weight", "report"):
            i = res["line"] - 1
            while i > 0 and rows[i]["ev"] != "wcfg":
                i -= 1
            inp = rows[i:res["line"]]
        else:
            inp = next((r for r in reversed(rows[:res["line"]]) if r["ev"] == "sched"), None)
        ctx.violation("weighted_round_robin: clause %s violated at %s; input %s" % (res["clause"], json.dumps(bad)[:300], json.dumps(inp)[:600]),
                      {"clause": res["clause"], "event": bad, "input": inp, "line": res["line"]})
    tl = []
    for r in rows:
        if r["ev"] == "sched":
            ctx.count(["sched", r["w"]], nontrivial=len(r["w"]) > 1)
            ctx.cov["traces_validated_against_impl"] += 1
            if r["kind"] == "edf":
                ctx.sample(r)
        elif r["ev"] == "wcfg":
            tl = [r]
        elif r["ev"] in ("report", "weight"):
            tl.append([r["ev"], r["t"], r.get("a"), r.get("app"), r.get("c")])
        elif r["ev"] == "reset" and tl:
            ctx.count(["timeline", tl], nontrivial=len(tl) > 3)
            ctx.cov["traces_validated_against_impl"] += 1
            tl = []
    ctx.cov["rule"] = ("one case = one endpoint weight vector (scheduler built by the real newScheduler; 12 single picks and 2-4 full "
                       "windows of 65535*n sequence numbers), or one timeline of load reports and weight queries under the fake clock; "
                       "non-trivial = more than one endpoint / more than three events")
    ctx.assumptions += ["weights are dyadic multiples of integers <= 10^6 so that the float scaling is exact except on exact ties",
                        "the 32-bit sequence counter does not wrap inside a window (DESIGN 7)",
                        "load report fields are dyadic (utilization k/64, penalty k/4, eps/qps k/8 for the exact cases)"]
