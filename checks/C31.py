"""C31 — serialized callbacks run in FIFO order exactly once (specs Unbounded / UnboundedTrace / PubSubTrace)."""
import re

from vcheck import parse_tla_state
import _syncprims as sp

META = {
    "engine": "Unbounded",
    "level": "model_checking",
    "text": "Unbounded.tla models every atomic step of buffer.Unbounded (Put / Load / Close critical sections, the 1-slot "
            "channel) and of CallbackSerializer.run (receive, Load, callback, exit) with context cancellation at any point; "
            "TLC checks FIFO / exactly-once / refused-never-runs / everything-before-Done / Put-after-Close-refused / no-wedge "
            "and termination exhaustively (2 producers x 2 values, 2 closers) with two negative controls; every transition of "
            "the bounded model is forced onto real goroutines (the real run loop and the real context.AfterFunc goroutine are "
            "gated at their first hook point) with the private state compared after each step, and all recorded traces (gated "
            "and free-running stress, incl. ScheduleAndWait / TrySchedule and PubSub) are validated by TLC against the Level-A "
            "monitors UnboundedTrace.tla and PubSubTrace.tla.",
    "note": "Trusts that the hook points mark the atomic steps, the Go memory model for sync.Mutex / channels, and TLC. "
            "Gated replay scope: 2 producers x 2 values; PubSub is covered at Level A by the free-running stress driver only "
            "(no Level-I model of PubSub); stress is probabilistic. Termination ('stuck') is judged with a 30 s bound that is "
            "only reached on failing paths.",
    "technique": "TLA+ spec + TLC exhaustive check; TLC state-graph edge cover replayed on real goroutines (gate scheduler); TLC trace validation",
}

EXP_VARS = ("slot", "backlog", "closing", "closed")
POINT = {"put": "unb.put", "recv": "ser.recv", "load": "unb.load", "run": "ser.run", "exit": "ser.exit",
         "cancel": "cancel", "cclose": "unb.close"}


def step_of(state_text, label):
    m = re.match(r'(\w+)(?:\("(\w+)"\))?', label)
    name, arg = m.group(1), m.group(2)
    st = parse_tla_state(state_text, only=set(EXP_VARS))
    exp = {"slot": len(st["slot"]), "backlog": len(st["backlog"]), "closing": st["closing"], "closed": st["closed"]}
    return {"t": arg or "run", "p": POINT[name], "exp": exp}


def run(ctx):
    only = r"zz_verif_c31_"
    ctx.overlay(only)
    scope_buf = dict(producers=["p", "q"], per=2, closers=["c", "d"])
    scope_ser = dict(producers=["p", "q"], per=2, closers=["c"])
    limit = ctx.pick(500, None)
    # (a) design level: exhaustive model check (safety + termination) and two negative controls;
    # state graphs of the two replay scopes; driver builds (all independent: run concurrently)
    _, _, _, gbuf, gser, bbuf, bser = sp.parallel([
        lambda: ctx.mc("Unbounded", "UnboundedMC.cfg", workers=4),
        lambda: ctx.neg("Unbounded", "UnboundedNeg1.cfg", expect="I_NoWedge", workers=2),
        lambda: ctx.neg("Unbounded", "UnboundedNeg2.cfg", expect="I_Fifo", workers=2),
        lambda: ctx.dump_graph("Unbounded", "UnboundedGenBuf.cfg"),
        lambda: ctx.dump_graph("Unbounded", "UnboundedGenSer.cfg"),
        lambda: ctx.go_build("internal/buffer", name="c31buf", only=only),
        lambda: ctx.go_build("internal/grpcsync", name="c31ser", only=only),
    ])
    gbuf = sp.behaviours(ctx, gbuf, step_of, scope_buf, "buf", limit=limit)
    gser = sp.behaviours(ctx, gser, step_of, scope_ser, "ser", limit=limit)

    # (b)+(c) every transition of the bounded model forced onto real goroutines;
    # (d) free-running stress with jitter
    rounds = ctx.pick(150, 2500)
    parts = sp.parallel([
        lambda: sp.replay(ctx, bbuf, "TestVerifC31BufReplay", gbuf),
        lambda: sp.replay(ctx, bser, "TestVerifC31SerReplay", gser),
        lambda: sp.stress(ctx, bbuf, "TestVerifC31BufStress", rounds, "stress-buf"),
        lambda: sp.stress(ctx, bser, "TestVerifC31SerStress", rounds, "stress-ser"),
        lambda: sp.stress(ctx, bser, "TestVerifC31PubSubStress", rounds, "stress-pubsub"),
    ], workers=2)
    # (e) all traces judged by the TLC monitors
    sp.validate(ctx, "UnboundedTrace", parts[:4])
    sp.validate(ctx, "PubSubTrace", parts[4:])
    ctx.cov["rule"] = ("behaviours = edge cover of the TLC state graph of Unbounded.tla (one schedule per transition, BFS "
                       "prefix) in two bindings (buffer.Unbounded with a driver consumer; the real CallbackSerializer), "
                       "replayed on real goroutines gated at verifhook points, private state compared after every step; "
                       "non-trivial = schedule of >= 3 steps, distinct by step sequence; plus seeded free-running stress "
                       "rounds (Unbounded, CallbackSerializer, PubSub)")
    ctx.assumptions += ["atomic steps of Unbounded / CallbackSerializer.run are the ones marked by verifhook points",
                        "Level-A events are logged conservatively: put_call before the lock is taken, put_ret after the "
                        "call returned, run_begin/run_end inside the callback, done after Done()/end-of-stream was observed",
                        "submission order between concurrent submitters is only constrained where one call returned "
                        "before the other started (real-time order); in gated replay that is the total order"]
