"""C46 — xDS routing selects the right virtual host, route and cluster."""
import os

from vcheck import read_ndjson
from _reforacle import validate_known, account

META = {
    "engine": "XdsRouting",
    "level": "model_checking",
    "text": "XdsRouting.tla (on top of Matchers.tla) is a declarative reference of the routing decisions: best virtual host for an "
            "authority (exact > suffix > prefix > '*', longer first), route match = path /\\ all headers /\\ runtime fraction "
            "(draw < f), first matching route, cluster whose weight interval contains the draw, and the inputs a request hash may "
            "depend on. TLC checks on all pairs (thorough: triples) of domains over a 2-letter alphabet with every wildcard form, "
            "every fraction and draw of a scaled-down 'million', every weight vector up to length 3, and pairs of routes, that the "
            "reference meets the property stated as counting / ordering laws (negative control: draw <= f). TLC then validates "
            "records of the real FindBestMatchingVirtualHost, CompositeMatcher.Match (draw enumerated through RandInt64n: 0, 1, f-1, "
            "f, f+1, 999999 for f in {0,1,2,500000,999999,10^6}), wrr.NewRandom (every draw 0..n-1 enumerated through randInt64n; "
            "TLC counts), configSelector.SelectConfig (first route, cluster taken from the route's weighted pick) and the request "
            "hash (equal policy inputs => equal hash, over all combinations of header / channel-id policies, terminal flags, regex "
            "rewrite, user and extra metadata).",
    "note": "SelectConfig is driven on a configSelector assembled in-package with a scripted wrr.WRR per route; the real wrr.NewRandom "
            "is enumerated separately, so the composition is argued, not executed. The hash clause is the literal one (the hash is a "
            "function of the policy inputs); the gRFC A42 reading of `terminal` is compared as drift only. Route and header matchers "
            "use ASCII inputs here (Unicode folding belongs to C47).",
    "technique": "TLA+ reference specification model-checked by TLC on a bounded domain; real (configuration, input, random draw, result) records validated by TLC",
}

WEAK = {
    "KNOWN_FractionDrawEqFraction": (
        "C46:fraction-matcher:draw==fraction",
        "fractionMatcher.match compares `t <= fraction`: when every other matcher of the route matches and the random draw EQUALS "
        "the fraction the route matches, so a fraction f matches f+1 of the 10^6 draws and fraction 0 matches draw 0"),
}


def run(ctx):
    ctx.mc("XdsRoutingMC", ctx.pick("XdsRoutingMC.cfg", "XdsRoutingMCT.cfg"), workers=8, timeout=1800)
    ctx.neg("XdsRoutingMC", "XdsRoutingNeg.cfg", expect="I_FractionCount", workers=2)
    env = {"VERIF_N": ctx.pick(200, 4000)}
    rows = []
    for pkg, name, test, extra in (
            ("internal/xds/xdsclient/xdsresource", "c46x", "TestVerifC46Routing", {}),
            ("internal/wrr", "c46w", "TestVerifC46WRR", {"VERIF_N": ctx.pick(15, 300), "VERIF_MAXW": ctx.pick(3, 5)}),
            ("internal/xds/resolver", "c46r", "TestVerifC46Select", {})):
        binary = ctx.go_build(pkg, name=name, only=r"zz_verif_c4[67]_")
        path = os.path.join(ctx.run, name + ".ndjson")
        ctx.driver(binary, test, dict(env, VERIF_OUT=path, **extra))
        rows += [{"ev": "reset"}] + read_ndjson(path)
    account(ctx, rows, drop=("res", "route", "got", "err", "h", "ncalls", "bound"))
    validate_known(ctx, "XdsRoutingTrace", "XdsRoutingTrace.cfg", rows, WEAK, "xDS routing")
    ctx.cov["rule"] = ("records of the real routing functions: every host x pair of domain patterns, routes with two header matchers x "
                       "metadata x method x fraction verdict, every fraction boundary draw, every draw of every small weight vector, "
                       "pairs of routes x method x metadata x draw through SelectConfig, hash-policy lists x metadata combinations; "
                       "judged by TLC against the TLA+ reference; distinct = distinct (configuration, input, draw)")
    ctx.assumptions += ["TLC's evaluation of the XdsRouting / Matchers operators is trusted as the oracle",
                        "SelectConfig's weighted pick is scripted; wrr.NewRandom is enumerated in its own package"]
