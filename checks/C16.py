"""C16 — control-frame throttling never deadlocks; close releases everything (spec ControlBuf / ControlBufTrace)."""
import json
import os
import re

from vcheck import Inconclusive, parse_tla_state, write_ndjson

META = {
    "engine": "ControlBuf",
    "level": "model_checking",
    "text": "ControlBuf.tla models every atomic step of transport.controlBuffer (executeAndPut, get/getOnceLocked with the "
            "consumer parking on wakeupCh/done, the lock-free trfChan load and the wait of throttle(), finish(), closing done); "
            "TLC checks exhaustively (2 producers putting throttled / unthrottled / client-headers items, consumer, reader "
            "making 2 throttle() calls, 2 finish() calls, done; Max=2) that a reader is blocked only while >= Max throttled "
            "items are queued and the buffer is open, that nothing is accepted after close, that every queued client-headers "
            "item is orphaned exactly once, and that a parked consumer always has a wake-up pending when the queue is not "
            "empty, with a negative control. Every transition of two bounded scopes (Max=1 and Max=2) is forced onto real "
            "goroutines at verifhook gates placed right before the blocking selects, with the private state compared after "
            "each step; a seeded free-running stress (Max 1..8, up to 3 producers, 2 readers, early finish/done) follows. All "
            "recorded traces end with three quiescent points (free run, after finish(), after done) at which a goroutine "
            "still blocked in a select is logged as stuck, and are judged by TLC against the Level-A monitor ControlBufTrace.tla.",
    "note": "Trusts that the hook points mark the atomic steps of controlbuf.go, the Go memory model, the runtime's goroutine "
            "dump (state 'select') for telling a parked goroutine from a running one, and TLC. Bounded scopes: <=2 producers "
            "and 1 reader in gated replay (3 producers / 2 readers / Max=3 model-checked in the thorough tier); stress is "
            "probabilistic. executeAndPut's f()==false and it==nil paths and get(false) are not driven.",
    "technique": "TLA+ spec + TLC exhaustive check; TLC state-graph edge cover replayed on real goroutines (gate scheduler); "
                 "TLC trace validation",
}

EXP_VARS = ("list", "trf", "ch", "closedCh", "cw", "wake", "closed", "done", "pc")

SCOPES = {
    "ControlBufGen1.cfg": dict(max=1, producers={"p1": ["T", "T"]}, readers=["r1"], throttles=2, fins=1, usedone=True),
    "ControlBufGen2.cfg": dict(max=2, producers={"p1": ["T", "T"], "p2": ["H", "T"]}, readers=["r1"], throttles=1, fins=1,
                               usedone=True),
    "ControlBufGen3.cfg": dict(max=2, producers={"p1": ["T", "H", "T"], "p2": ["T", "U"]}, readers=["r1"], throttles=2, fins=2,
                               usedone=True),
}


def step_of(state_text, label):
    m = re.match(r'(\w+)\("(\w+)"\)', label)
    if not m:
        raise Inconclusive("unexpected action label %r" % label)
    name, t = m.group(1), m.group(2)
    st = parse_tla_state(state_text, only=set(EXP_VARS))
    exp = {
        "list": ",".join("%s.%d" % (it["id"][0], it["id"][1]) for it in st["list"]),
        "trf": st["trf"], "ch": st["ch"],
        "closedCh": "[" + " ".join(str(x) for x in sorted(st["closedCh"]["$set"])) + "]",
        "cw": st["cw"], "wake": st["wake"], "closed": st["closed"], "done": st["done"],
    }
    # Go prints booleans as true/false
    exp = {k: (str(v).lower() if isinstance(v, bool) else v) for k, v in exp.items()}
    return {"t": t, "p": name, "next": st["pc"][t], "exp": exp}


def summary(out):
    m = re.search(r"VERIF_SUMMARY (\{.*\})", out)
    if not m:
        raise Inconclusive("driver printed no summary:\n" + out[-2000:])
    return json.loads(m.group(1))


def judge(ctx, res, trace_path, what):
    if res["accepted"]:
        return
    idx, seg = ctx.trace_segment(trace_path, res["line"])
    head = json.loads(seg[0]) if seg else {}
    ctx.violation("%s: clause %s violated at trace line %d (execution %s, outcome %s)" %
                  (what, res["clause"], res["line"], head.get("b"), head.get("outcome")),
                  {"clause": res["clause"], "segment": seg[:400]})


def run(ctx):
    # (a) design level
    ctx.mc("ControlBuf", "ControlBufMC.cfg", workers=8)
    ctx.neg("ControlBuf", "ControlBufNeg.cfg", expect="I_BlockedOnlyWhileFull", workers=4)
    if not ctx.quick():
        ctx.neg("ControlBuf", "ControlBufNeg2.cfg", expect="I_ClosedRejects", workers=4)
        ctx.neg("ControlBuf", "ControlBufNeg3.cfg", expect="I_BlockedOnlyWhileFull", workers=4)
        ctx.mc("ControlBuf", "ControlBufLive.cfg", workers=8)
        ctx.mc("ControlBuf", "ControlBufMCBig.cfg", workers=8, timeout=1500)
    binary = ctx.go_build("internal/transport", name="c16", only=r"zz_verif_c16_")

    # (b)+(c) every transition of the bounded scopes forced onto real goroutines
    scopes = [("ControlBufGen1.cfg", None), ("ControlBufGen2.cfg", ctx.pick(1200, None))]
    if not ctx.quick():
        scopes.append(("ControlBufGen3.cfg", 3000))
    rows = []
    for cfg, limit in scopes:
        g = ctx.dump_graph("ControlBuf", cfg)
        behs = ctx.edge_cover(g, step_of, limit=limit)
        rows += [dict(SCOPES[cfg], steps=b) for b in behs]
        for b in behs:
            ctx.count([cfg] + [(x["t"], x["p"]) for x in b], nontrivial=len(b) >= 3)
        ctx.sample({"scope": cfg, "schedule": [(x["t"], x["p"]) for x in behs[len(behs) // 2]]})
    bpath = os.path.join(ctx.run, "beh-c16.ndjson")
    tpath = os.path.join(ctx.run, "trace-c16-gated.ndjson")
    write_ndjson(bpath, rows)
    out = ctx.driver(binary, "TestVerifC16Replay", {"VERIF_BEHAVIOURS": bpath, "VERIF_OUT": tpath}, timeout=900)
    s = summary(out)
    counts = s["counts"]
    ndrift = sum(v for k, v in counts.items() if k not in ("ok", "ok-nondet"))
    ctx.cov["drift"] += ndrift
    ctx.cov["replay_outcomes"] = counts
    for n in (s["notes"] or []):
        print("DRIFT property=C16 %s" % n)
    res = ctx.validate("ControlBufTrace", "ControlBufTrace.cfg", tpath)
    judge(ctx, res, tpath, "gated replay")
    if res["accepted"] and (s["skipped"] or counts.get("infeasible") or counts.get("blocked") or counts.get("unsettled")):
        raise Inconclusive("gated replay could not follow the model (%s, %d skipped) but the monitor saw no violation: %s"
                           % (counts, s["skipped"], s["notes"]))

    # (d)+(e) free-running stress with jitter, judged by the same monitor
    if not ctx.violations:
        tpath = os.path.join(ctx.run, "trace-c16-stress.ndjson")
        rounds = ctx.pick(300, 3000)
        out = ctx.driver(binary, "TestVerifC16Stress", {"VERIF_OUT": tpath, "VERIF_ROUNDS": rounds}, timeout=1200)
        s = summary(out)
        ctx.count({"stress_rounds": rounds, "seed": ctx.seed}, n=rounds)
        res = ctx.validate("ControlBufTrace", "ControlBufTrace.cfg", tpath)
        judge(ctx, res, tpath, "stress seed %d" % ctx.seed)
        if res["accepted"] and s["unclean"]:
            raise Inconclusive("stress: %d rounds did not settle but the monitor saw no violation" % s["unclean"])
    ctx.cov["rule"] = ("behaviours = edge cover of the TLC state graph of ControlBuf.tla (one schedule per transition, BFS "
                       "prefix) for the scopes Gen1 (Max=1) and Gen2 (Max=2), replayed on real goroutines gated at verifhook "
                       "points / driver gates, private state compared after every step, followed by three quiescent phases; "
                       "non-trivial = schedule of >= 3 steps, distinct by scope and step sequence; plus seeded free-running "
                       "stress rounds (Max 1..8)")
    ctx.assumptions += [
        "atomic steps of controlBuffer are the ones marked by the verifhook points / the sections under c.mu",
        "a goroutine reported in state 'select' by runtime.Stack is blocked; wake-ups make it runnable synchronously",
        "the queue content logged inside c.mu (hook as last statement of each section) is the linearisation order",
        "when wakeupCh and done are both ready Go's select may take either case: replay stops following the model there "
        "(outcome ok-nondet) and goes to the quiescent phases",
    ]
