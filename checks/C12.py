"""C12 — a misbehaving client cannot crash the server or reach a handler illegally (spec PeerGrammarServer)."""
import json
import os
import re

from vcheck import Inconclusive, parse_tla_state, parse_tla_value, read_ndjson
import _peer

META = {
    "engine": "PeerGrammarServer",
    "level": "model_checking",
    "text": "PeerGrammarServer.tla is a grammar of HTTP/2 client behaviour (HEADERS frames described by ten attributes: stream-id class, "
            ":method, content-type, te, grpc-timeout, :authority / host multiplicity, connection header, -bin metadata, header-list "
            "size, END_STREAM; plus client RST_STREAM, handler completion without / with a response message, a client that "
            "withholds flow-control window (SETTINGS_INITIAL_WINDOW_SIZE 16) and WINDOW_UPDATE) together with the server's admission table ServerAdmit "
            "(the checks in the order x/net's framer, http2_server.go operateHeaders and the MaxConcurrentStreams quota apply them, "
            "with the resulting disposition: handler / early abort (HTTP status, grpc-status) / RST_STREAM(code) / connection error). "
            "The property is stated independently of that order (Legal(h); I_NoIllegalHandler, I_MaxStreams, I_ExcessRefused) and TLC "
            "checks that the table implies it for all attribute combinations with <= 3 (thorough: all 124416) deviations, "
            "MaxConcurrentStreams in {1,2} and sequences of <= 3 requests with cancellations and completions (negative controls: "
            "`<` instead of `<=` in the stream-id check, `>` instead of `>=` in the quota, finished-but-unflushed streams not counted, content-type check dropped). Every "
            "transition of the bounded state graph, seeded random request sequences over the full attribute product, and seeded "
            "byte-level mutations (bit flips, truncation, length / type / flag / stream-id lies, duplicated and swapped frames) of the "
            "serialised client byte streams are executed by a raw HTTP/2 client against a real grpc.Server "
            "(grpc.UnknownServiceHandler recording handler entry / exit, testing/synctest + bufconn); TLC validates every recorded "
            "step: a handler started only for a Legal request, streams that are admitted and still open on the wire (handler running or response held back by the client's window) "
            "<= MaxConcurrentStreams, a Legal request above the cap "
            "answered by RST_STREAM(REFUSED_STREAM), no panic (a crashed driver process is attributed to its behaviour by re-running the "
            "batch one behaviour at a time); the predicted disposition is compared as drift only.",
    "note": "'Illegal stream id' is read as RFC 9113 5.1.1 (even, zero, or not above every id the client already used); several Host "
            "values count as a duplicate :authority (gRFC A41). Mutated byte streams are judged by the generic clauses only (no panic, "
            "handler bound). No coverage-guided fuzzing: raw bytes are reached only by mutating grammar-generated streams.",
}

ATTRS = {
    "c": ["next", "skip", "reuse", "lower", "even", "zero"],
    "meth": ["POST", "GET", "none"],
    "ct": ["grpc", "grpcsub", "json", "none", "grpcx"],
    "te": ["trailers", "none"],
    "to": ["none", "ok", "zero", "bad", "long"],
    "au": ["one", "hostonly", "none", "both", "dupauth", "duphost"],
    "conn": [False, True],
    "bin": ["none", "ok", "bad"],
    "big": ["no", "big", "huge"],
    "es": [False, True],
}
KNOWN_CLAUSE = "I_NoIllegalHandler_IdReusedAfterStreamError"
KNOWN_SIG = "handler runs on a stream id reused after a HEADERS frame that was rejected with a stream error"


def step_of(state_text, label):
    m = re.match(r"(\w+)\((.*)\)$", label, re.S)
    if not m:
        raise Inconclusive("unknown action label " + label)
    name, arg = m.group(1), m.group(2)
    sid = parse_tla_state(state_text, only={"lastSid"})["lastSid"]
    if name == "ReqT":
        g = parse_tla_value(arg)
        st = {"a": "req", "sid": sid}
        st.update(g)
        return st
    if name == "RstT":
        return {"a": "rst", "sid": sid}
    if name == "FinT":
        return {"a": "fin", "sid": sid}
    if name == "FinMsgT":
        return {"a": "finmsg", "sid": sid}
    if name == "WinUpT":
        return {"a": "winup", "sid": sid}
    raise Inconclusive("unknown action label " + label)


def cap_of(state_text):
    st = parse_tla_state(state_text, only={"cap", "win"})
    return [st["cap"], st["win"]]


def random_beh(rng):
    steps = []
    nrun = 0
    win = rng.choice(["normal", "tiny", "tiny"])
    for _ in range(rng.randint(2, 8)):
        r = rng.random()
        if nrun and r < 0.12:
            steps.append({"a": "rst", "sid": -1, "pick": rng.randint(0, 3)})
            nrun -= 1
        elif nrun and r < 0.22:
            steps.append({"a": "fin", "sid": -1, "pick": rng.randint(0, 3)})
            nrun -= 1
        elif nrun and r < 0.36:
            steps.append({"a": "finmsg", "sid": -1, "pick": rng.randint(0, 3)})
            nrun -= 1
        elif r < 0.42:
            steps.append({"a": "winup", "sid": -1, "pick": rng.randint(0, 3)})   # skipped by the driver when nothing is blocked
        else:
            st = {"a": "req", "sid": -1, "shuf": rng.randint(1, 1 << 30)}
            p_default = rng.choice([0.55, 0.8, 0.95])
            for k, vals in ATTRS.items():
                st[k] = vals[0] if rng.random() < p_default else rng.choice(vals)
            steps.append(st)
            nrun += 1
    return {"cap": rng.choice([1, 2, 3]), "win": win, "mut": 0, "steps": steps}


def phase_ok(ctx, tpath, what):
    """Validate one phase with every clause except the one of the known finding."""
    res = ctx.validate("PeerGrammarServerTrace", "PeerGrammarServerTraceTol.cfg", tpath)
    if res["accepted"]:
        return True
    idx, seg = ctx.trace_segment(tpath, res["line"])
    lines = open(tpath).read().splitlines()
    ev = json.loads(lines[res["line"] - 1])
    if ev.get("ev") == "crash" and ev.get("kind") == "hang":
        # a wedged driver is not part of this property's text: machinery, not a verdict
        raise Inconclusive("%s: the driver hung on behaviour %s" % (what, ev.get("beh", "")[:600]))
    ctx.violation("%s: clause %s at trace line %d: %s" % (what, res["clause"], res["line"], lines[res["line"] - 1][:400]),
                  {"clause": res["clause"], "segment": _peer.segment_text(seg)})
    return False


def judge_known(ctx, paths):
    """The full monitor over all phases: the only clause that may still fire is the known-finding class."""
    tpath = os.path.join(ctx.run, "trace-all.ndjson")
    with open(tpath, "w") as out:
        for p in paths:
            out.write(open(p).read())
    res = ctx.validate("PeerGrammarServerTrace", "PeerGrammarServerTrace.cfg", tpath, count_resets=False)
    ctx.cov["events_validated"] -= res["consumed"]   # already counted per phase
    if not res["accepted"]:
        idx, seg = ctx.trace_segment(tpath, res["line"])
        if res["clause"] != KNOWN_CLAUSE:
            raise Inconclusive("monitor disagreement: %s" % res["clause"])
        lines = open(tpath).read().splitlines()
        ctx.finding(KNOWN_SIG,
                    "a handler was started for a request on a stream id the client had already used (trace line %d): %s" % (
                        res["line"], lines[res["line"] - 1][:300]),
                    {"clause": res["clause"], "segment": _peer.segment_text(seg)})


def run(ctx):
    ctx.mc("PeerGrammarServerMC", ctx.pick("PeerGrammarServerMC.cfg", "PeerGrammarServerMCT.cfg"), workers=ctx.pick(4, 8), timeout=1800)
    ctx.neg("PeerGrammarServerMC", "PeerGrammarServerNeg1.cfg", expect="I_NoIllegalHandler", workers=2)
    ctx.neg("PeerGrammarServerMC", "PeerGrammarServerNeg2.cfg", expect="I_ExcessRefused", workers=2)
    # a stream whose handler returned but whose response the client's window holds back is forgotten by the quota
    ctx.neg("PeerGrammarServerMC", "PeerGrammarServerNeg5.cfg", expect="I_ExcessRefused", workers=2)
    if not ctx.quick():
        ctx.neg("PeerGrammarServerMC", "PeerGrammarServerNeg3.cfg", expect="I_NoIllegalHandler", workers=2)
        # the stream-id comparison as coded (against the server's own high-water mark): the model itself shows the finding
        ctx.neg("PeerGrammarServerMC", "PeerGrammarServerCode.cfg", expect="I_NoIllegalHandler", workers=2)
    binary = ctx.go_build("internal/zzverif/c12")
    ctx.assumptions += [
        "handlers of the driver return as soon as their context is cancelled; 'active' = admitted streams for which the raw "
        "client has neither seen END_STREAM / RST_STREAM nor sent RST_STREAM",
        "observations are taken at testing/synctest quiescence plus 1.5 s of virtual time after every step",
    ]
    ctx.cov["rule"] = ("behaviours = edge cover of the TLC state graph of PeerGrammarServerMC (BFS prefix + one transition; requests with "
                       "<= 2 deviating attributes, <= 3 requests, <= 4 (thorough 5) events incl. cancellations and completions, MaxConcurrentStreams 1 and 2, client window normal / 16 bytes with handlers that return after a 4 KB response and "
                       "client WINDOW_UPDATEs; stratified sample) "
                       "executed step by step by a raw HTTP/2 client against a real grpc.Server; non-trivial = contains a request; "
                       "distinct by step sequence; plus seeded random sequences (2-8 steps, all ten attributes random, shuffled header "
                       "order, MaxConcurrentStreams 1-3) and seeded byte-level mutations of the serialised streams")

    # ---- behaviours from the TLC state graph (edge cover)
    g = ctx.dump_graph("PeerGrammarServerMC", ctx.pick("PeerGrammarServerGen.cfg", "PeerGrammarServerGenT.cfg"), workers=4)
    caps = {}

    def step_cap(state_text, label):
        st = step_of(state_text, label)
        st["_cap"] = cap_of(state_text)
        return st
    raw = ctx.edge_cover(g, step_cap, limit=None)
    ctx.cov["behaviours_generated"] -= len(raw)
    # stratified sample: behaviours with a flow-control-blocked stream (finmsg) are a small part of the graph
    ctx.rng.shuffle(raw)
    fm = [b for b in raw if any(st["a"] == "finmsg" for st in b)]
    rest = [b for b in raw if not any(st["a"] == "finmsg" for st in b)]
    raw = fm[:ctx.pick(700, 8000)] + rest[:ctx.pick(1800, 20000)]
    ctx.cov["behaviours_generated"] += len(raw)
    behs = []
    for b in raw:
        cap, win = b[0]["_cap"]
        behs.append({"cap": cap, "win": win, "mut": 0, "steps": [{k: v for k, v in st.items() if k != "_cap"} for st in b]})
    tpath = os.path.join(ctx.run, "trace-replay.ndjson")
    reset_fields = lambda b: {"cap": b["cap"], "mut": b.get("mut", 0), "win": b.get("win", "normal")}
    _peer.run_batched(ctx, binary, "TestVerifC12Replay", behs, tpath, "replay", batch=1000, reset_fields=reset_fields)
    for b in behs:
        ctx.count(b, nontrivial=any(st["a"] == "req" for st in b["steps"]))
    ctx.sample(behs[len(behs) // 2])

    # ---- seeded random sequences over the full attribute product
    n = ctx.pick(500, 8000)
    rbehs = [random_beh(ctx.rng) for _ in range(n)]
    ctx.cov["behaviours_generated"] += n
    if not phase_ok(ctx, tpath, "replay of TLC behaviours"):
        return
    tpath2 = os.path.join(ctx.run, "trace-random.ndjson")
    _peer.run_batched(ctx, binary, "TestVerifC12Replay", rbehs, tpath2, "random", batch=1000, reset_fields=reset_fields)
    for b in rbehs:
        ctx.count(b)
    ctx.sample(rbehs[0])

    # ---- byte-level mutation of the serialised client streams (generic clauses only)
    m = ctx.pick(600, 10000)
    pool = behs + rbehs
    mbehs = []
    for _ in range(m):
        b = dict(ctx.rng.choice(pool))
        b["mut"] = ctx.rng.choice([1, 1, 2, 3, 5])
        mbehs.append(b)
    ctx.cov["behaviours_generated"] += m
    if not phase_ok(ctx, tpath2, "random request sequences seed %d" % ctx.seed):
        return
    tpath3 = os.path.join(ctx.run, "trace-mut.ndjson")
    _peer.run_batched(ctx, binary, "TestVerifC12Replay", mbehs, tpath3, "mut", batch=1000, reset_fields=reset_fields)
    ctx.count({"mutated_streams": m, "seed": ctx.seed}, n=m)
    if not phase_ok(ctx, tpath3, "byte-mutated client streams seed %d" % ctx.seed):
        return
    judge_known(ctx, [tpath, tpath2, tpath3])
