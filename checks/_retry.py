"""Shared pipeline of C18 and C19(a): behaviours of specs/Retry.tla executed e2e (harness/virt/retry) and judged by
specs/RetryTrace.tla with the clause set of the calling property."""
import json
import os
import re

from vcheck import Inconclusive, parse_tla_state, parse_tla_value, write_ndjson


def _cfg(c):
    c = dict(c)
    c["codes"] = sorted(c["codes"]["$set"])
    return c


def step_of(state_text, label):
    m = re.match(r'(\w+)(?:\((.*)\))?$', label.strip(), re.S)
    if not m:
        raise Inconclusive("unknown action label " + label)
    name, args = m.group(1), m.group(2)
    name = name[:-1] if name.endswith("T") else name
    st = parse_tla_state(state_text, only={"cfg", "pc", "opk", "parked", "cur"})
    cfg = _cfg(st["cfg"])
    cur = st["cur"]
    responded = (cur["trig"] == "open" or (cur["trig"] == "late" and 0 in cur["sent"])
                 or (cur["trig"] == "m2" and 2 in cur["sent"]))
    # the receiver is blocked on the current attempt and only the parked sender can unblock it
    blocked = st["pc"] == "run" and st["opk"] in ("header", "recv") and st["parked"] != 0 and not responded
    return dict(_step(name, args, cfg), blocked=blocked)


def _step(name, args, cfg):
    if name == "NewAttempt":
        return {"a": "att", "s": parse_tla_value(args), "cfg": cfg}
    if name == "Ret":
        return {"a": "ret", "cfg": cfg}
    if name == "Begin":
        a = [x.strip().strip('"') for x in args.split(",")]
        return {"a": "op", "op": a[0], "i": int(a[1]), "cfg": cfg}
    if name == "Park":
        return {"a": "op", "op": "park", "i": int(args), "cfg": cfg}
    if name == "Unpark":
        return {"a": "op", "op": "unpark", "i": 0, "inline": 0, "cfg": cfg}
    if name == "UnparkInline":
        return {"a": "op", "op": "unpark", "i": 0, "inline": 1, "cfg": cfg}
    if name == "NewRPC":
        return {"a": "op", "op": "newrpc", "i": 0, "cfg": cfg}
    raise Inconclusive("unknown action label " + label)


def to_behaviour(steps):
    ops = [{"op": s["op"], "i": s["i"], "inline": s.get("inline", 0)} for s in steps if s["a"] == "op"]
    if steps[-1].get("blocked"):
        ops.append({"op": "unpark", "i": 0, "inline": 1})   # a prefix must not end with a blocked receiver
    return {"cfg": steps[0]["cfg"], "ops": ops, "scripts": [s["s"] for s in steps if s["a"] == "att"]}


def from_states(states):
    """A simulated behaviour (list of state dicts with cfg, pc, opk, oparg, natt, cur) -> driver behaviour."""
    ops, scripts = [], []
    prev = None
    for st in states:
        if prev is not None:
            if st["natt"] > prev["natt"]:
                c = st["cur"]
                scripts.append({"act": c["act"], "code": c["code"], "pb": c["pb"], "trig": c["trig"]})
            if prev["pc"] == "idle" and st["pc"] == "run":
                ops.append({"op": st["opk"], "i": st["oparg"]})
        prev = st
    return {"cfg": _cfg(states[0]["cfg"]), "ops": ops, "scripts": scripts}


def nontrivial(b):
    return len(b["scripts"]) >= 2


def generate(ctx, gencfg, limit, nsim, simdepth=24, keep=None, rank=None):
    g = ctx.dump_graph("RetryMC", gencfg)
    raw = ctx.edge_cover(g, step_of, limit=None)
    seen, behs = set(), []

    def add(b):
        k = json.dumps(b, sort_keys=True)
        if k not in seen:
            seen.add(k)
            behs.append(b)
    for steps in raw:
        b = to_behaviour(steps)
        if keep is None or keep(b):
            add(b)
    if rank is None:
        rank = lambda b: min(len(b["scripts"]), 3)
    if limit is not None and len(behs) > limit:
        # keep the behaviours with retries preferentially (they carry the property), fill with a seeded sample
        ctx.rng.shuffle(behs)
        behs.sort(key=lambda b: -rank(b))
        behs = behs[:limit]
    nedge = len(behs)
    if nsim:
        sims = ctx.simulate("RetryMC", "RetrySim.cfg", nsim, simdepth,
                            only={"cfg", "pc", "opk", "oparg", "natt", "cur"})
        for states in sims:
            if states:
                add(from_states(states))
    ctx.log("behaviours: %d from the edge cover (%d edges), %d random" % (nedge, len(raw), len(behs) - nedge))
    return behs


def execute(ctx, behs, tag):
    binary = ctx.go_build("internal/zzverif/retry")
    bpath = os.path.join(ctx.run, "beh-%s.ndjson" % tag)
    tpath = os.path.join(ctx.run, "trace-%s.ndjson" % tag)
    write_ndjson(bpath, behs)
    ctx.driver(binary, "TestVerifRetryReplay", {"VERIF_BEHAVIOURS": bpath, "VERIF_OUT": tpath}, timeout=900)
    return tpath


def judge(ctx, tracecfg, tpath, behs, what):
    res = ctx.validate("RetryTrace", tracecfg, tpath)
    if res["accepted"]:
        return res
    idx, seg = ctx.trace_segment(tpath, res["line"])
    beh = behs[idx] if 0 <= idx < len(behs) else None
    ctx.violation("%s: clause %s at trace line %d (behaviour %d: %s)" %
                  (what, res["clause"], res["line"], idx, json.dumps(beh)),
                  {"clause": res["clause"], "behaviour": beh, "segment": seg[:120]})
    return res
