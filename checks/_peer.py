"""Shared orchestration for C11 / C12 (peer grammars executed against the real transports).

run_batched: executes behaviours in batches in separate driver processes.  A panic in a transport
goroutine, a synctest "blocked goroutines remain" deadlock or the driver's wall-clock watchdog (VERIF_HANG)
kills the driver process.  Drivers print "VERIF_BEGIN <index>" before each behaviour and append the events
of a behaviour to the trace file when it is over, so the culprit is the last index announced: it is
recorded in the trace as a {"ev":"crash"} line (with the reason) and the run resumes after it; drivers
without the marker are attributed by bisection.  The TLC monitor - not this script - turns the crash
line into the I_NoPanic / I_NoLeak / I_NoHang verdict.
"""
import json
import os
import re

from vcheck import Inconclusive, write_ndjson

CRASH_PATTERNS = [
    ("hang", re.compile(r"^VERIF_HANG \d+", re.M)),
    ("leak", re.compile(r"deadlock: main bubble goroutine has exited but blocked goroutines remain")),
    ("hang", re.compile(r"deadlock: all goroutines in bubble are blocked")),
    ("panic", re.compile(r"^panic: ", re.M)),
    ("panic", re.compile(r"^fatal error: ", re.M)),
    ("hang", re.compile(r"test timed out after")),
]


def classify_crash(out):
    for kind, rx in CRASH_PATTERNS:
        if rx.search(out):
            return kind
    return None


def _run_one(ctx, binary, test, behs, base, tag, env, timeout):
    bpath = os.path.join(ctx.run, "beh-%s-%d.ndjson" % (tag, base))
    tpath = os.path.join(ctx.run, "trace-%s-%d.ndjson" % (tag, base))
    write_ndjson(bpath, behs)
    if os.path.exists(tpath):
        os.remove(tpath)
    e = {"VERIF_BEHAVIOURS": bpath, "VERIF_OUT": tpath, "VERIF_BASE": base}
    e.update(env or {})
    try:
        rc, out = ctx.go_run(binary, test, e, timeout=timeout)
    except Inconclusive:
        return False, "hang", "driver timed out", tpath
    ok = rc == 0 and "PASS" in out and "--- FAIL" not in out
    if ok:
        return True, None, out, tpath
    return False, classify_crash(out), out, tpath


def run_batched(ctx, binary, test, behs, out_path, tag, batch=400, env=None, timeout=300, reset_fields=None,
                max_crashes=2, single_timeout=90):
    """Run all behaviours; append their traces to out_path.  Returns the list of crashed behaviour indices.

    A batch whose driver process dies is bisected (prefix first) down to single behaviours; the behaviours before
    the culprit are not lost.  After max_crashes attributed crashes the rest of the phase is skipped (the verdict
    is already determined; this bounds the time spent on a failing path)."""
    crashed = []
    skipped = [0]
    counter = [0]

    def emit_crash(outf, i, b, kind, out):
        rs = {"ev": "reset", "b": i}
        rs.update(reset_fields(b) if reset_fields else {})
        outf.write(json.dumps(rs, separators=(",", ":")) + "\n")
        m = re.search(r"^(panic: .*|fatal error: .*)$", out, re.M)
        outf.write(json.dumps({"ev": "crash", "kind": kind, "b": i, "msg": (m.group(1) if m else kind)[:300],
                               "tail": out[-3000:], "beh": json.dumps(b)}, separators=(",", ":")) + "\n")

    def direct(outf, lo, hi):
        """Run [lo, hi) resuming after each attributed crash.  Returns False if the driver has no BEGIN marker."""
        while lo < hi:
            if len(crashed) >= max_crashes:
                skipped[0] += hi - lo
                return True
            counter[0] += 1
            ok, kind, out, tpath = _run_one(ctx, binary, test, behs[lo:hi], lo, "%s%d" % (tag, counter[0]), env, timeout)
            if ok:
                outf.write(open(tpath).read())
                return True
            if kind is None:
                raise Inconclusive("driver %s failed without a recognisable crash:\n%s" % (test, out[-4000:]))
            marks = re.findall(r"^VERIF_BEGIN (\d+)$", out, re.M)
            if not marks:
                return False
            bad = int(marks[-1])
            if not lo <= bad < hi:
                raise Inconclusive("driver %s announced behaviour %d outside %d..%d" % (test, bad, lo, hi))
            ctx.log("driver process died (%s) on behaviour %d of phase %s" % (kind, bad, tag))
            if os.path.exists(tpath):
                outf.write(open(tpath).read())      # the behaviours completed before the crash
            crashed.append(bad)
            emit_crash(outf, bad, behs[bad], kind, out)
            lo = bad + 1
        return True

    def go(outf, lo, hi, known_bad):
        # behaviours [lo, hi); known_bad: this range is known to crash (skip the confirming run unless single)
        if lo >= hi:
            return
        if len(crashed) >= max_crashes:
            skipped[0] += hi - lo
            return
        n = hi - lo
        if not known_bad or n == 1:
            counter[0] += 1
            ok, kind, out, tpath = _run_one(ctx, binary, test, behs[lo:hi], lo, "%s%d" % (tag, counter[0]), env,
                                            timeout if n > 1 else single_timeout)
            if ok:
                outf.write(open(tpath).read())
                return
            if kind is None:
                raise Inconclusive("driver %s failed without a recognisable crash:\n%s" % (test, out[-4000:]))
            if n == 1:
                ctx.log("driver process died (%s) on behaviour %d of phase %s" % (kind, lo, tag))
                crashed.append(lo)
                emit_crash(outf, lo, behs[lo], kind, out)
                return
            ctx.log("driver process died (%s) in behaviours %d..%d of phase %s: bisecting" % (kind, lo, hi, tag))
        mid = lo + n // 2
        before = len(crashed)
        go(outf, lo, mid, False)
        # if the first half was clean the culprit is in the second half
        go(outf, mid, hi, len(crashed) == before)

    with open(out_path, "a") as outf:
        for base in range(0, len(behs), batch):
            hi = min(base + batch, len(behs))
            if not direct(outf, base, hi):
                go(outf, base, hi, True)
    if skipped[0]:
        ctx.log("phase %s: %d behaviours skipped after %d attributed crashes" % (tag, skipped[0], len(crashed)))
    return crashed


def segment_text(seg, limit=40):
    out = []
    for ln in seg[:limit]:
        out.append(ln if len(ln) < 700 else ln[:700] + "...")
    return out
