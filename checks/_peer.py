"""Shared orchestration for C11 / C12 (peer grammars executed against the real transports).

run_batched: executes behaviours in batches in separate driver processes.  A panic in a transport
goroutine (or a synctest "blocked goroutines remain" deadlock) kills the driver process; the failing
batch is then re-run one behaviour at a time and every behaviour whose process dies is recorded in the
trace as a {"ev":"crash"} line (with the reason), so that the TLC monitor - not this script - turns it
into the I_NoPanic / I_NoLeak verdict.
"""
import json
import os
import re

from vcheck import Inconclusive, write_ndjson

CRASH_PATTERNS = [
    ("leak", re.compile(r"deadlock: main bubble goroutine has exited but blocked goroutines remain")),
    ("panic", re.compile(r"^panic: ", re.M)),
    ("panic", re.compile(r"^fatal error: ", re.M)),
    ("hang", re.compile(r"test timed out after")),
]


def classify_crash(out):
    for kind, rx in CRASH_PATTERNS:
        if rx.search(out):
            return kind
    return None


def _run_one(ctx, binary, test, behs, base, tag, env, timeout):
    bpath = os.path.join(ctx.run, "beh-%s-%d.ndjson" % (tag, base))
    tpath = os.path.join(ctx.run, "trace-%s-%d.ndjson" % (tag, base))
    write_ndjson(bpath, behs)
    if os.path.exists(tpath):
        os.remove(tpath)
    e = {"VERIF_BEHAVIOURS": bpath, "VERIF_OUT": tpath, "VERIF_BASE": base}
    e.update(env or {})
    try:
        rc, out = ctx.go_run(binary, test, e, timeout=timeout)
    except Inconclusive:
        return False, "hang", "driver timed out", tpath
    ok = rc == 0 and "PASS" in out and "--- FAIL" not in out
    if ok:
        return True, None, out, tpath
    return False, classify_crash(out), out, tpath


def run_batched(ctx, binary, test, behs, out_path, tag, batch=400, env=None, timeout=600, reset_fields=None):
    """Run all behaviours; append their traces to out_path.  Returns number of crashed behaviours."""
    crashed = 0
    with open(out_path, "a") as outf:
        for base in range(0, len(behs), batch):
            chunk = behs[base:base + batch]
            ok, kind, out, tpath = _run_one(ctx, binary, test, chunk, base, tag, env, timeout)
            if ok:
                outf.write(open(tpath).read())
                continue
            if kind is None:
                raise Inconclusive("driver %s failed without a recognisable crash:\n%s" % (test, out[-4000:]))
            ctx.log("driver process died (%s) in batch %d..%d: re-running one behaviour at a time" % (kind, base, base + len(chunk)))
            for i, b in enumerate(chunk):
                ok, kind, out, tpath = _run_one(ctx, binary, test, [b], base + i, tag + "s", env, timeout)
                if ok:
                    outf.write(open(tpath).read())
                    continue
                if kind is None:
                    raise Inconclusive("driver %s failed without a recognisable crash:\n%s" % (test, out[-4000:]))
                crashed += 1
                rs = {"ev": "reset", "b": base + i}
                rs.update(reset_fields(b) if reset_fields else {})
                outf.write(json.dumps(rs, separators=(",", ":")) + "\n")
                msg = out[-3000:]
                m = re.search(r"^(panic: .*|fatal error: .*)$", out, re.M)
                outf.write(json.dumps({"ev": "crash", "kind": kind, "b": base + i, "msg": (m.group(1) if m else kind)[:300],
                                       "tail": msg, "beh": json.dumps(b)}, separators=(",", ":")) + "\n")
    return crashed


def segment_text(seg, limit=40):
    out = []
    for ln in seg[:limit]:
        out.append(ln if len(ln) < 700 else ln[:700] + "...")
    return out
